#!/usr/bin/env python3
"""Generate hand-written mutants (M-*: break a property; B-*: benign refactorings that must stay
green) as patch files under seeded/own/, from (file, old, new) replacement tuples applied to a
scratch worktree of /repo HEAD.  tools/own_mutants.py gen | run [name-prefix] [--all-checks]"""
import json, os, subprocess, sys, tempfile, shutil, time
V = os.path.dirname(os.path.dirname(os.path.abspath(__file__)))
OUT = os.path.join(V, 'seeded', 'own')
S = 'src/cbor/'
M = [
 # name, props expected to detect, [(file, old, new)]
 ('M-C01-nolencheck8', ['C01', 'C08'], [(S+'streaming.c', "        if (claim_bytes(8, source_size, &result)) {\n          callbacks->uint64(context, _cbor_load_uint64(source + 1));", "        if (claim_bytes(7, source_size, &result)) {\n          result.read++;\n          callbacks->uint64(context, _cbor_load_uint64(source + 1));")]),
 ('M-C01-claim-ge', ['C01', 'C08', 'C09'], [(S+'streaming.c', "  if (required > (provided - result->read)) {", "  if (required > (provided - result->read) + 1) {")]),
 ('M-C01-leak-on-error', ['C01', 'C05'], [('src/cbor.c', "  while (stack.size > 0) {\n    cbor_decref(&stack.top->item);\n    _cbor_stack_pop(&stack);\n  }\n  return NULL;", "  while (stack.size > 1) {\n    cbor_decref(&stack.top->item);\n    _cbor_stack_pop(&stack);\n  }\n  if (stack.size > 0) { cbor_decref(&stack.top->item); _cbor_stack_pop(&stack); }\n  return NULL;".replace("  if (stack.size > 0) { cbor_decref(&stack.top->item); _cbor_stack_pop(&stack); }\n", "  if (stack.size > 0) { _cbor_stack_pop(&stack); }\n"))]),
 ('M-C02-map-subitems', ['C02', 'C01'], [(S+'internal/builder_callbacks.c', "    PUSH_CTX_STACK(ctx, res, size * 2);", "    PUSH_CTX_STACK(ctx, res, size > 1 ? size * 2 - 1 : size * 2);")]),
 ('M-C02-break-odd-parity', ['C02'], [(S+'internal/builder_callbacks.c', "        (item->type != CBOR_TYPE_MAP || ctx->stack->top->subitems % 2 == 0)) {", "        (item->type != CBOR_TYPE_MAP || cbor_map_size(item) < 2 || ctx->stack->top->subitems % 2 == 0)) {")]),
 ('M-C02-load64-swap', ['C02', 'C08', 'C10'], [(S+'internal/loaders.c', "         ((uint16_t) * (source + 6) << 0x08) + (uint8_t) * (source + 7);", "         ((uint16_t) * (source + 7) << 0x08) + (uint8_t) * (source + 6);")]),
 ('M-C02-negint32-as-uint', ['C02'], [(S+'internal/builder_callbacks.c', "  cbor_item_t* res = cbor_new_int32();\n  CHECK_RES(ctx, res);\n  cbor_mark_negint(res);", "  cbor_item_t* res = cbor_new_int32();\n  CHECK_RES(ctx, res);\n  if (value != UINT32_MAX) cbor_mark_negint(res);")]),
 ('M-C03-uint8-boundary', ['C03', 'C10', 'C07'], [(S+'internal/encoders.c', "    if (value <= UINT8_MAX)\n      return _cbor_encode_uint8", "    if (value < UINT8_MAX)\n      return _cbor_encode_uint8")]),
 ('M-C03-no-break-empty-indef-map', ['C03', 'C07'], [(S+'serialization.c', "    CBOR_ASSERT(cbor_map_is_indefinite(item));\n    size_t break_written =\n        cbor_encode_break(buffer + written, buffer_size - written);", "    CBOR_ASSERT(cbor_map_is_indefinite(item));\n    if (size == 0 && buffer_size - written > 1) return written;\n    size_t break_written =\n        cbor_encode_break(buffer + written, buffer_size - written);")]),
 ('M-C03-single-nan', ['C03', 'C15', 'C10'], [(S+'encoding.c', "    return _cbor_encode_uint32(0x7FC0 << 16, buffer, buffer_size, 0xE0);", "    return _cbor_encode_uint32(signbit(value) ? 0xFFC0u << 16 : 0x7FC0 << 16, buffer, buffer_size, 0xE0);")]),
 ('M-C04-push-noincref-definite', ['C04'], [(S+'arrays.c', "    data[metadata->end_ptr++] = pushee;\n  } else {", "    data[metadata->end_ptr++] = pushee;\n    if (metadata->end_ptr == metadata->allocated) return true;\n  } else {")]),
 ('M-C04-replace-no-decref', ['C04'], [(S+'arrays.c', "  cbor_intermediate_decref(((cbor_item_t**)item->data)[index]);", "  if (index + 1 != item->metadata.array_metadata.end_ptr) cbor_intermediate_decref(((cbor_item_t**)item->data)[index]);")]),
 ('M-C04-builder-tag-leak', ['C04', 'C01', 'C02'], [(S+'internal/builder_callbacks.c', "      cbor_tag_set_item(ctx->stack->top->item, item);\n      cbor_decref(&item); /* Give up on our reference */", "      cbor_tag_set_item(ctx->stack->top->item, item);\n      if (!cbor_isa_tag(item)) cbor_decref(&item); /* Give up on our reference */")]),
 ('M-C05-position-plus1', ['C05'], [('src/cbor.c', "        {\n          result->error.code = CBOR_ERR_MALFORMATED;\n          goto error;", "        {\n          result->error.code = CBOR_ERR_MALFORMATED;\n          result->read++;\n          goto error;")]),
 ('M-C05-nedata-as-malformed', ['C05'], [('src/cbor.c', "          result->error.code = CBOR_ERR_NOTENOUGHDATA;\n          goto error;", "          result->error.code = result->read > 64 ? CBOR_ERR_MALFORMATED : CBOR_ERR_NOTENOUGHDATA;\n          goto error;")]),
 ('M-C06-dependent-notnull', ['C06'], [(S+'common.h', "    if (pointer == NULL) {                          \\\n      _cbor_free(cbor_item);                        \\\n      return NULL;", "    if (pointer == NULL) {                          \\\n      return NULL;")]),
 ('M-C06-copy-map-leak', ['C06'], [('src/cbor.c', "        if (value_copy == NULL) {\n          cbor_decref(&res);\n          cbor_decref(&key_copy);\n          return NULL;", "        if (value_copy == NULL) {\n          cbor_decref(&res);\n          return NULL;")]),
 ('M-C06-chunk-incref-early', ['C06', 'C12'], [(S+'strings.c', "  struct cbor_indefinite_string_data* data =\n      (struct cbor_indefinite_string_data*)item->data;\n  if (data->chunk_count == data->chunk_capacity) {", "  struct cbor_indefinite_string_data* data =\n      (struct cbor_indefinite_string_data*)item->data;\n  cbor_incref(chunk);\n  if (data->chunk_count == data->chunk_capacity) {"), (S+'strings.c', "  data->chunks[data->chunk_count++] = cbor_incref(chunk);\n  return true;\n}\n\nsize_t cbor_string_length", "  data->chunks[data->chunk_count++] = chunk;\n  return true;\n}\n\nsize_t cbor_string_length")]),
 ('M-C07-string-room', ['C07'], [(S+'serialization.c', "    if (written > 0 && (buffer_size - written >= length)) {", "    if (written > 0 && (buffer_size - written + 1 >= length)) {")]),
 ('M-C07-header-size-255', ['C07'], [(S+'serialization.c', "  else if (size <= UINT8_MAX)\n    return 2;", "  else if (size < UINT8_MAX)\n    return 2;")]),
 ('M-C07-uint16-write-first', ['C07'], [(S+'internal/encoders.c', "  if (buffer_size < 3) {\n    return 0;\n  }\n  buffer[0] = 0x19 + offset;", "  if (buffer_size >= 1) buffer[0] = 0x19 + offset;\n  if (buffer_size < 3) {\n    return 0;\n  }")]),
 ('M-C07-alloc-plus1', ['C07'], [(S+'serialization.c', "  *buffer = _cbor_malloc(serialized_size);", "  *buffer = _cbor_malloc(serialized_size + 1);")]),
 ('M-C08-wrong-slot-0x39', ['C08', 'C10', 'C02'], [(S+'streaming.c', "          callbacks->negint16(context, _cbor_load_uint16(source + 1));", "          callbacks->uint16(context, _cbor_load_uint16(source + 1));")]),
 ('M-C08-static-state', ['C08', 'C09', 'C17'], [(S+'streaming.c', "  struct cbor_decoder_result result = {.status = CBOR_DECODER_FINISHED};\n  if (!claim_bytes(1, source_size, &result)) {\n    return result;\n  }", "  static size_t calls;\n  struct cbor_decoder_result result = {.status = CBOR_DECODER_FINISHED};\n  if (!claim_bytes(1, source_size, &result)) {\n    if ((++calls & 1023) == 0) result.required = 2;\n    return result;\n  }")]),
 ('M-C10-uint32-byteorder', ['C10', 'C03'], [(S+'internal/encoders.c', "  buffer[3] = (unsigned char)(value >> 8);\n  buffer[4] = (unsigned char)value;\n#endif\n\n  return 5;", "  buffer[3] = (unsigned char)value;\n  buffer[4] = (unsigned char)(value >> 8);\n#endif\n\n  return 5;")]),
 ('M-C10-map-start-offset', ['C10', 'C03'], [(S+'encoding.c', "  return _cbor_encode_uint((size_t)length, buffer, buffer_size, 0xA0);", "  return _cbor_encode_uint((size_t)length, buffer, buffer_size, length == 23 ? 0x80 : 0xA0);")]),
 ('M-C11-chunk-shared', ['C11'], [('src/cbor.c', "          if (!cbor_bytestring_add_chunk(res, chunk_copy)) {", "          if (!cbor_bytestring_add_chunk(res, i == 1 ? cbor_bytestring_chunks_handle(item)[i] : chunk_copy)) {")]),
 ('M-C11-entry-refcount2', ['C11', 'C04'], [('src/cbor.c', "        if (!cbor_array_push(res, entry_copy)) {\n          cbor_decref(&entry_copy);\n          cbor_decref(&res);\n          return NULL;\n        }\n        cbor_decref(&entry_copy);", "        if (!cbor_array_push(res, entry_copy)) {\n          cbor_decref(&entry_copy);\n          cbor_decref(&res);\n          return NULL;\n        }\n        if (i != 2) cbor_decref(&entry_copy);")]),
 ('M-C12-replace-gt', ['C12'], [(S+'arrays.c', "  if (index >= item->metadata.array_metadata.end_ptr) return false;", "  if (index > item->metadata.array_metadata.end_ptr) return false;")]),
 ('M-C12-push-full-gt', ['C12'], [(S+'arrays.c', "    /* Do not reallocate definite arrays */\n    if (metadata->end_ptr >= metadata->allocated) {", "    /* Do not reallocate definite arrays */\n    if (metadata->end_ptr > metadata->allocated) {")]),
 ('M-C12-linear-growth', ['C12'], [(S+'arrays.c', "                                  : CBOR_BUFFER_GROWTH * metadata->allocated;\n\n      unsigned char* new_data = _cbor_realloc_multiple(\n          array->data,", "                                  : metadata->allocated + 16;\n\n      unsigned char* new_data = _cbor_realloc_multiple(\n          array->data,")]),
 ('M-C13-stack-pop-libc-free', ['C13'], [(S+'internal/stack.c', "  _cbor_free(top);", "  free(top);")]),
 ('M-C13-sera-libc-pair', ['C13'], [(S+'serialization.c', "  *buffer = _cbor_malloc(serialized_size);\n  if (*buffer == NULL) {", "  void* probe = malloc(16);\n  if (probe) ((volatile char*)probe)[0] = 1;\n  free(probe);\n  *buffer = _cbor_malloc(serialized_size);\n  if (*buffer == NULL) {")]),
 ('M-C13-size-scratch', ['C13'], [(S+'serialization.c', "size_t cbor_serialize_alloc(const cbor_item_t* item, unsigned char** buffer,\n                            size_t* buffer_size) {\n  *buffer = NULL;\n  size_t serialized_size = cbor_serialized_size(item);", "size_t cbor_serialize_alloc(const cbor_item_t* item, unsigned char** buffer,\n                            size_t* buffer_size) {\n  *buffer = NULL;\n  size_t serialized_size = cbor_serialized_size(item);\n  if (cbor_isa_map(item)) { void* t = _cbor_malloc(8); _cbor_free(t); }"), (S+'serialization.c', "    case CBOR_TYPE_MAP: {\n      size_t map_size = cbor_map_is_definite(item)", "    case CBOR_TYPE_MAP: {\n      if (cbor_map_size(item) > 2) { void* t = _cbor_malloc(8); _cbor_free(t); }\n      size_t map_size = cbor_map_is_definite(item)")]),
 ('M-C14-loop-cond', ['C14', 'C02'], [('src/cbor.c', "  } while (stack.size > 0);", "  } while (stack.size > 0 || (result->read < source_size && source[result->read] == 0xFF && source_size - result->read == 1 && (result->read++, 0)));")]),
 ('M-C15-half-bias', ['C15', 'C02'], [(S+'internal/loaders.c', "    val = ldexp(mant + 1024, exp - 25);", "    val = ldexp(mant + 1024, exp == 30 ? exp - 24 : exp - 25);")]),
 ('M-C15-half-subnormal-round', ['C15', 'C10'], [(S+'encoding.c', "             (uint16_t)(((mant >> (-logical_exp - 2)) + 1) >>\n                        1));", "             (uint16_t)(((mant >> (-logical_exp - 2))) >>\n                        1));")]),
 ('M-C16-accept-surrogate', ['C16'], [(S+'internal/unicode.c', "    0x3, 0x3, 0x4, 0x3, 0x3, /* e0..ef */", "    0x3, 0x3, 0x3, 0x3, 0x3, /* e0..ef */")]),
 ('M-C16-unfinished', ['C16'], [(S+'internal/unicode.c', "  if (state != UTF8_ACCEPT) goto error;", "  if (state != UTF8_ACCEPT && source_length > 1) goto error;")]),
 ('M-C17-static-error', ['C17'], [('src/cbor.c', "  struct cbor_decoder_result decode_result;\n  *result =", "  static struct cbor_decoder_result decode_result;\n  *result =")]),
 ('M-C18-memo-size', ['C18'], [(S+'serialization.c', "      cbor_item_t** items = cbor_array_handle(item);\n      for (size_t i = 0; i < cbor_array_size(item); i++) {\n        array_size = _cbor_safe_signaling_add(array_size,\n                                              cbor_serialized_size(items[i]));\n      }\n      return array_size;", "      cbor_item_t** items = cbor_array_handle(item);\n      for (size_t i = 0; i < cbor_array_size(item); i++) {\n        array_size = _cbor_safe_signaling_add(array_size,\n                                              cbor_serialized_size(items[i]));\n      }\n      if (cbor_array_size(item) == 3) ((cbor_item_t*)item)->metadata.array_metadata.end_ptr = 3;\n      return array_size;")]),
 ('M-C19-limit-gt', ['C19', 'C05'], [(S+'internal/stack.c', "  if (stack->size == CBOR_MAX_STACK_SIZE) return NULL;", "  if (stack->size > CBOR_MAX_STACK_SIZE) return NULL;")]),
 ('M-C19-tags-free', ['C19'], [(S+'internal/builder_callbacks.c', "  cbor_item_t* res = cbor_new_tag(value);\n  CHECK_RES(ctx, res);\n  PUSH_CTX_STACK(ctx, res, 1);", "  cbor_item_t* res = cbor_new_tag(value);\n  CHECK_RES(ctx, res);\n  bool at_limit = ctx->stack->size == CBOR_MAX_STACK_SIZE && ctx->stack->top->item->type == CBOR_TYPE_TAG;\n  if (at_limit) ctx->stack->size--;\n  PUSH_CTX_STACK(ctx, res, 1);\n  if (at_limit) ctx->stack->size++;")]),
 ('M-C20-mul-guard-plus1', ['C20'], [(S+'internal/memory_utils.c', "  return _cbor_highest_bit(a) + _cbor_highest_bit(b) <= sizeof(size_t) * 8;", "  return _cbor_highest_bit(a) + _cbor_highest_bit(b) <= sizeof(size_t) * 8 + 1;")]),
 ('M-C20-sigadd-wrap', ['C20'], [(S+'internal/memory_utils.c', "  if (_cbor_safe_to_add(a, b)) return a + b;\n  return 0;", "  return a + b;")]),
 # ---- benign refactorings: every check must stay green
 ('B-add-or', [], [(S+'internal/memory_utils.c', "  return sum >= a && sum >= b;", "  return sum >= a || (sum >= b && sum >= a);")]),
 ('B-initial-capacity-4', [], [(S+'arrays.c', "      size_t new_allocation = metadata->allocated == 0\n                                  ? 1", "      size_t new_allocation = metadata->allocated == 0\n                                  ? 4")]),
 ('B-overallocate-definite', [], [(S+'arrays.c', "  cbor_item_t** data = _cbor_alloc_multiple(sizeof(cbor_item_t*), size);\n  _CBOR_DEPENDENT_NOTNULL(item, data);", "  cbor_item_t** data = size < SIZE_MAX ? _cbor_alloc_multiple(sizeof(cbor_item_t*), size + 1) : NULL;\n  _CBOR_DEPENDENT_NOTNULL(item, data);")]),
 ('B-stringn-nul-terminated', [], [(S+'strings.c', "  unsigned char* handle = _cbor_malloc(length);\n  _CBOR_DEPENDENT_NOTNULL(item, handle);\n  memcpy(handle, val, length);\n  cbor_string_set_handle(item, handle, length);\n  return item;\n}\n\nvoid cbor_string_set_handle", "  unsigned char* handle = length < SIZE_MAX ? _cbor_malloc(length + 1) : NULL;\n  _CBOR_DEPENDENT_NOTNULL(item, handle);\n  memcpy(handle, val, length);\n  handle[length] = 0;\n  cbor_string_set_handle(item, handle, length);\n  return item;\n}\n\nvoid cbor_string_set_handle")]),
 ('B-eager-chunk-check', [], [(S+'internal/builder_callbacks.c', "#define PUSH_CTX_STACK(ctx, res, subitems)                     \\\n  do {                                                         \\\n    if (_cbor_stack_push(ctx->stack, res, subitems) == NULL) { \\", "#define PUSH_CTX_STACK(ctx, res, subitems)                     \\\n  do {                                                         \\\n    if (ctx->stack->size > 0 && (ctx->stack->top->item->type == CBOR_TYPE_BYTESTRING || ctx->stack->top->item->type == CBOR_TYPE_STRING)) { \\\n      cbor_decref(&res);                                       \\\n      ctx->syntax_error = true;                                \\\n    } else                                                     \\\n    if (_cbor_stack_push(ctx->stack, res, subitems) == NULL) { \\")]),
 ('B-string-alloc-order', [], [(S+'internal/builder_callbacks.c', "  CHECK_LENGTH(ctx, length);\n  unsigned char* new_handle = _cbor_malloc(length);\n  if (new_handle == NULL) {\n    ctx->creation_failed = true;\n    return;\n  }\n\n  memcpy(new_handle, data, length);\n  cbor_item_t* new_chunk = cbor_new_definite_bytestring();\n\n  if (new_chunk == NULL) {\n    _cbor_free(new_handle);\n    ctx->creation_failed = true;\n    return;\n  }\n", "  CHECK_LENGTH(ctx, length);\n  cbor_item_t* new_chunk = cbor_new_definite_bytestring();\n  if (new_chunk == NULL) {\n    ctx->creation_failed = true;\n    return;\n  }\n  unsigned char* new_handle = _cbor_malloc(length);\n  if (new_handle == NULL) {\n    cbor_decref(&new_chunk);\n    ctx->creation_failed = true;\n    return;\n  }\n\n  memcpy(new_handle, data, length);\n")]),
 ('B-growth-x4', [], [(S+'arrays.c', "                                  : CBOR_BUFFER_GROWTH * metadata->allocated;\n\n      unsigned char* new_data = _cbor_realloc_multiple(\n          array->data,", "                                  : (metadata->allocated < 1024 ? 2 : CBOR_BUFFER_GROWTH) * metadata->allocated;\n\n      unsigned char* new_data = _cbor_realloc_multiple(\n          array->data,")]),
 ('B-describe-format', [], [('src/cbor.c', '      fprintf(out, "Value: %" PRIu64 "\\n", cbor_get_int(item));\n      break;\n    }\n    case CBOR_TYPE_NEGINT: {', '      fprintf(out, "Value = %" PRIu64 "\\n", cbor_get_int(item));\n      break;\n    }\n    case CBOR_TYPE_NEGINT: {')]),
 ('B-map-zero-init', [], [(S+'maps.c', "  _CBOR_DEPENDENT_NOTNULL(item, item->data);\n\n  return item;\n}\n\ncbor_item_t* cbor_new_indefinite_map", "  _CBOR_DEPENDENT_NOTNULL(item, item->data);\n  for (size_t i = 0; i < size; i++) ((struct cbor_pair*)item->data)[i] = (struct cbor_pair){NULL, NULL};\n\n  return item;\n}\n\ncbor_item_t* cbor_new_indefinite_map")]),
 ('B-stack-alloc-first', [], [(S+'internal/stack.c', "  if (stack->size == CBOR_MAX_STACK_SIZE) return NULL;\n  struct _cbor_stack_record* new_top =\n      _cbor_malloc(sizeof(struct _cbor_stack_record));\n  if (new_top == NULL) return NULL;", "  struct _cbor_stack_record* new_top =\n      _cbor_malloc(sizeof(struct _cbor_stack_record));\n  if (new_top == NULL) return NULL;\n  if (stack->size == CBOR_MAX_STACK_SIZE) {\n    _cbor_free(new_top);\n    return NULL;\n  }")]),
 ('B-indef-prealloc4', [], [(S+'arrays.c', "      .metadata = {.array_metadata = {.type = _CBOR_METADATA_INDEFINITE,\n                                      .allocated = 0,\n                                      .end_ptr = 0}},\n      .data = NULL /* Can be safely realloc-ed */\n  };\n  return item;", "      .metadata = {.array_metadata = {.type = _CBOR_METADATA_INDEFINITE,\n                                      .allocated = 0,\n                                      .end_ptr = 0}},\n      .data = NULL /* Can be safely realloc-ed */\n  };\n  item->data = _cbor_alloc_multiple(sizeof(cbor_item_t*), 4);\n  if (item->data == NULL) {\n    _cbor_free(item);\n    return NULL;\n  }\n  item->metadata.array_metadata.allocated = 4;\n  return item;")]),
 ('B-copy-keep-capacity', [], [('src/cbor.c', "        res = cbor_new_definite_array(cbor_array_size(item));", "        res = cbor_new_definite_array(cbor_array_allocated(item));")]),
 ('B-serialize-size-first', [], [(S+'serialization.c', "size_t cbor_serialize(const cbor_item_t* item, unsigned char* buffer,\n                      size_t buffer_size) {\n  switch (cbor_typeof(item)) {", "size_t cbor_serialize(const cbor_item_t* item, unsigned char* buffer,\n                      size_t buffer_size) {\n  if (buffer_size == 0) return 0;\n  switch (cbor_typeof(item)) {")]),
 ('B-eager-depth-check', [], [(S+'internal/builder_callbacks.c', "void cbor_builder_tag_callback(void* context, uint64_t value) {\n  struct _cbor_decoder_context* ctx = context;\n  cbor_item_t* res = cbor_new_tag(value);", "void cbor_builder_tag_callback(void* context, uint64_t value) {\n  struct _cbor_decoder_context* ctx = context;\n  if (ctx->stack->size >= CBOR_MAX_STACK_SIZE) {\n    ctx->creation_failed = true;\n    return;\n  }\n  cbor_item_t* res = cbor_new_tag(value);")]),
]

def gen():
    wt = tempfile.mkdtemp(prefix='vown-', dir='/tmp'); os.rmdir(wt)
    subprocess.check_call(['git', '-C', '/repo', 'worktree', 'add', '--detach', wt, 'HEAD'], stdout=subprocess.DEVNULL, stderr=subprocess.DEVNULL)
    try:
        for name, props, reps in M:
            subprocess.check_call(['git', '-C', wt, 'checkout', '-q', '--', '.'])
            ok = True
            for f, old, new in reps:
                p = os.path.join(wt, f); s = open(p).read()
                if s.count(old) != 1:
                    print('!! %s: pattern found %d times in %s' % (name, s.count(old), f)); ok = False; break
                open(p, 'w').write(s.replace(old, new))
            if not ok: continue
            d = subprocess.check_output(['git', '-C', wt, 'diff'])
            open(os.path.join(OUT, name + '.diff'), 'wb').write(d)
        exp = {}
        ep = os.path.join(OUT, 'expected.json')
        if os.path.exists(ep): exp = json.load(open(ep))   # keeps entries that were imported rather than generated (B-R*: refactorings written by sub-agents)
        exp.update({n: p for n, p, _ in M})
        json.dump(exp, open(ep, 'w'), indent=1)
    finally:
        subprocess.call(['git', '-C', '/repo', 'worktree', 'remove', '--force', wt], stdout=subprocess.DEVNULL, stderr=subprocess.DEVNULL)
        shutil.rmtree(wt, ignore_errors=True)

def suite_ok(patch):
    """the unedited test suite must pass with the patch (otherwise the mutant is not a realistic one)"""
    wt = tempfile.mkdtemp(prefix='vownt-', dir='/tmp'); os.rmdir(wt)
    subprocess.check_call(['git', '-C', '/repo', 'worktree', 'add', '--detach', wt, 'HEAD'], stdout=subprocess.DEVNULL, stderr=subprocess.DEVNULL)
    try:
        subprocess.check_call(['git', '-C', wt, 'apply', patch])
        r = subprocess.run('cmake -S . -B _b -G Ninja -DWITH_TESTS=ON -DCMAKE_BUILD_TYPE=RelWithDebInfo -DCMAKE_C_FLAGS=-Wno-error >/dev/null 2>&1 && cmake --build _b >/dev/null 2>&1 && ctest --test-dir _b -j8 2>&1 | tail -3', shell=True, cwd=wt, stdout=subprocess.PIPE, text=True)
        return '100% tests passed' in r.stdout
    finally:
        subprocess.call(['git', '-C', '/repo', 'worktree', 'remove', '--force', wt], stdout=subprocess.DEVNULL, stderr=subprocess.DEVNULL)
        shutil.rmtree(wt, ignore_errors=True)

def run(prefixes, allchecks, only=None):
    exp = json.load(open(os.path.join(OUT, 'expected.json')))
    allprops = ['C%02d' % i for i in range(1, 21)]
    for name in sorted(exp):
        if prefixes and not any(name.startswith(p) for p in prefixes): continue
        patch = os.path.join(OUT, name + '.diff')
        if not os.path.exists(patch): continue
        tests = suite_ok(patch)
        props = only if only else (allprops if (allchecks or name.startswith('B-')) else exp[name])
        r = subprocess.run([os.path.join(V, 'tools', 'mutant.py'), '--persist', patch] + props, stdout=subprocess.PIPE, stderr=subprocess.STDOUT, text=True)
        out = [l.strip() for l in r.stdout.splitlines() if l.startswith('C') or 'VIOLATION' in l]
        verdicts = {l.split()[0]: l.split()[1] for l in out if l[0] == 'C' and len(l.split()) > 1}
        print(name, 'suite_passes=%s' % tests, verdicts, flush=True)
        with open(os.path.join(OUT, 'results.jsonl'), 'a') as f:
            f.write(json.dumps({'mutant': name, 'suite_passes_with_patch': tests, 'expected': exp[name], 'verdicts': verdicts, 'detail': out[:12], 'at': time.strftime('%Y-%m-%dT%H:%M:%S')}) + '\n')

if __name__ == '__main__':
    if sys.argv[1] == 'gen': gen()
    else:
        only = None
        for a in sys.argv[2:]:
            if a.startswith('--props='): only = a[8:].split(',')
        run([a for a in sys.argv[2:] if not a.startswith('--')], '--all-checks' in sys.argv, only)
