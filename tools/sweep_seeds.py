#!/usr/bin/env python3
"""tools/sweep_seeds.py [ID-prefix ...]: run every stored seed against the check of the property it
targets (quick tier) and append the outcome to seeded/results.jsonl"""
import json, os, re, subprocess, sys, time
VERIF = os.path.dirname(os.path.dirname(os.path.abspath(__file__)))
sys.path.insert(0, VERIF)
from lib import props
want = [a for a in sys.argv[1:] if not a.startswith('--')]
skip_done = '--skip-done' in sys.argv
done = set()
if skip_done and os.path.exists(os.path.join(VERIF, 'seeded', 'results.jsonl')):
    done = {json.loads(l)['seed'] for l in open(os.path.join(VERIF, 'seeded', 'results.jsonl'))}
for sid in sorted(os.listdir(os.path.join(VERIF, 'seeded'))):
    d = os.path.join(VERIF, 'seeded', sid)
    if not os.path.isdir(d) or not os.path.exists(os.path.join(d, 'patch.diff')): continue
    if want and not any(sid.startswith(w) or w in sid for w in want): continue
    if sid in done: continue
    prop = sid.split('-')[0]
    meta = {}
    if os.path.exists(os.path.join(d, 'meta.json')): meta = json.load(open(os.path.join(d, 'meta.json')))
    targets = meta.get('run_against') or [prop]
    targets = [t for t in targets if t in props.SPECS]
    if not targets: print(sid, 'no check yet'); continue
    r = subprocess.run([os.path.join(VERIF, 'tools', 'mutant.py'), '--persist', os.path.join(d, 'patch.diff')] + targets, stdout=subprocess.PIPE, stderr=subprocess.STDOUT, text=True)
    out = [l for l in r.stdout.splitlines() if not l.startswith('WARNING')]
    print(sid, ' | '.join(l.strip() for l in out if re.match(r'^C\d+ ', l)))
    with open(os.path.join(VERIF, 'seeded', 'results.jsonl'), 'a') as f:
        f.write(json.dumps({'seed': sid, 'at': time.strftime('%Y-%m-%dT%H:%M:%S'), 'output': out}) + '\n')
