#!/usr/bin/env python3
"""tools/confirm_seed.py SRC_SEED_DIR ID  — independently confirm a seeded change in a fresh scratch
worktree (never /repo): the unedited test suite passes with the patch, the demonstration passes
without the patch and fails with it.  On success the seed is stored as /verif/seeded/<ID>/."""
import json, os, shutil, subprocess, sys, tempfile
VERIF = os.path.dirname(os.path.dirname(os.path.abspath(__file__)))
src, sid = os.path.abspath(sys.argv[1]), sys.argv[2]
wt = tempfile.mkdtemp(prefix='vconf-', dir='/tmp'); os.rmdir(wt)
def sh(cmd, **kw):
    return subprocess.run(cmd, shell=True, cwd=wt, stdout=subprocess.PIPE, stderr=subprocess.STDOUT, text=True, **kw)
subprocess.check_call(['git', '-C', '/repo', 'worktree', 'add', '--detach', wt, 'HEAD'], stdout=subprocess.DEVNULL, stderr=subprocess.DEVNULL)
log = {}
ok = False
try:
    os.makedirs(os.path.join(wt, 'SEED'))
    shutil.copytree(src, os.path.join(wt, 'SEED', 'x')); os.symlink('x', os.path.join(wt, 'SEED', os.path.basename(src.rstrip('/'))))
    cfg = 'cmake -S . -B _build -G Ninja -DWITH_TESTS=ON -DCMAKE_BUILD_TYPE=RelWithDebInfo -DCMAKE_C_FLAGS=-Wno-error >/dev/null && cmake --build _build 2>&1 | tail -2'
    build = 'cmake --build _build 2>&1 | tail -2'
    test = 'ctest --test-dir _build -j8 2>&1 | tail -4'
    r = sh(cfg); log['configure+build (clean)'] = r.stdout[-300:]
    r = sh('sh SEED/x/run_demo.sh', timeout=900); log['demo without patch'] = {'rc': r.returncode, 'tail': r.stdout[-400:]}
    clean_rc = r.returncode
    r = sh('git apply SEED/x/patch.diff'); log['git apply'] = {'rc': r.returncode, 'out': r.stdout[-300:]}
    applied = r.returncode == 0
    r = sh(build); log['build (patched)'] = r.stdout[-300:]
    r = sh(test); log['ctest (patched)'] = r.stdout[-300:]
    tests_ok = '100% tests passed' in r.stdout
    r = sh('sh SEED/x/run_demo.sh', timeout=900); log['demo with patch'] = {'rc': r.returncode, 'tail': r.stdout[-600:]}
    patched_rc = r.returncode
    ok = applied and tests_ok and clean_rc == 0 and patched_rc != 0
    log['verdict'] = {'applies': applied, 'tests_pass_with_patch': tests_ok, 'demo_rc_clean': clean_rc, 'demo_rc_patched': patched_rc, 'confirmed': ok}
finally:
    subprocess.call(['git', '-C', '/repo', 'worktree', 'remove', '--force', wt], stdout=subprocess.DEVNULL, stderr=subprocess.DEVNULL)
    shutil.rmtree(wt, ignore_errors=True)
print(sid, 'CONFIRMED' if ok else 'NOT-CONFIRMED', json.dumps(log.get('verdict')))
if ok:
    dst = os.path.join(VERIF, 'seeded', sid)
    shutil.rmtree(dst, ignore_errors=True); os.makedirs(dst)
    for f in os.listdir(src):
        if os.path.isfile(os.path.join(src, f)) and os.path.getsize(os.path.join(src, f)) < 200000:
            shutil.copy(os.path.join(src, f), dst)
    json.dump({'confirmation': log}, open(os.path.join(dst, 'confirm.json'), 'w'), indent=1)
else:
    print(json.dumps(log.get('demo with patch', {}))[-400:])
