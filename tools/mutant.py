#!/usr/bin/env python3
"""tools/mutant.py [--reverse-commit SHA | PATCH] PROP [PROP...] [--tier quick]
Apply a change to a scratch worktree of /repo (never to /repo itself), run the named checks against
it through VERIF_REPO, report DETECTED / MISSED per property, and remove the worktree and its build
output again.  Evidence and replays written during these runs are restored afterwards."""
import hashlib, os, shutil, subprocess, sys, tempfile, time
VERIF = os.path.dirname(os.path.dirname(os.path.abspath(__file__)))
args = sys.argv[1:]
tier = 'quick'; rev = None; patch = None; props = []; persist = False
i = 0
while i < len(args):
    if args[i] == '--tier': tier = args[i + 1]; i += 2
    elif args[i] == '--persist': persist = True; i += 1   # reuse /tmp/vmut-persist and its build output (incremental rebuilds); remove it yourself when done
    elif args[i] == '--reverse-commit': rev = args[i + 1]; i += 2
    elif patch is None and rev is None and os.path.exists(args[i]): patch = os.path.abspath(args[i]); i += 1
    else: props.append(args[i]); i += 1
if persist:
    wt = os.environ.get('VMUT_DIR', '/tmp/vmut-persist')   # a second sweep can run beside the first with its own directory
    if not os.path.isdir(wt):
        subprocess.check_call(['git', '-C', '/repo', 'worktree', 'add', '--detach', wt, 'HEAD'], stdout=subprocess.DEVNULL, stderr=subprocess.DEVNULL)
    subprocess.check_call(['git', '-C', wt, 'checkout', '-q', '--detach', subprocess.check_output(['git', '-C', '/repo', 'rev-parse', 'HEAD'], text=True).strip()])
    subprocess.check_call(['git', '-C', wt, 'checkout', '-q', '--', '.'])
    subprocess.check_call(['git', '-C', wt, 'clean', '-fdq'])   # files a previous patch added
else:
    wt = tempfile.mkdtemp(prefix='vmut-', dir='/tmp')
    os.rmdir(wt)
    subprocess.check_call(['git', '-C', '/repo', 'worktree', 'add', '--detach', wt, 'HEAD'], stdout=subprocess.DEVNULL, stderr=subprocess.DEVNULL)
bdir = os.path.join(VERIF, 'build-' + hashlib.sha1(wt.encode()).hexdigest()[:8])
evbak = tempfile.mkdtemp(prefix='vmut-ev-', dir='/tmp')
try:
    if rev:
        d = subprocess.check_output(['git', '-C', '/repo', 'show', rev, '--', 'src'])
        subprocess.run(['git', '-C', wt, 'apply', '-R'], input=d, check=True)
    else:
        subprocess.check_call(['git', '-C', wt, 'apply', patch])
    env = dict(os.environ, VERIF_REPO=wt, VERIF_REPLAYS=os.path.join(evbak, 'replays'), VERIF_EVIDENCE=os.path.join(evbak, 'evidence'))
    for p in props:
        t0 = time.time()
        r = subprocess.run([os.path.join(VERIF, 'check'), p, '--tier', tier], env=env, cwd=VERIF, stdout=subprocess.PIPE, stderr=subprocess.STDOUT, text=True)
        dt = time.time() - t0
        viol = [l for l in r.stdout.splitlines() if l.startswith('VIOLATION')]
        verdict = 'DETECTED' if (r.returncode == 1 and viol) else ('BUILD-FAILED' if r.returncode == 2 else 'MISSED')
        print('%s %s in %.1fs' % (p, verdict, dt))
        lines = r.stdout.splitlines()
        for k, l in enumerate(lines):
            if l.startswith('VIOLATION'):
                print('   ' + l); 
                if k + 1 < len(lines): print('   ' + lines[k + 1][:300])
                break
        if verdict == 'BUILD-FAILED': print(r.stdout[-1500:])
finally:
    if persist:
        subprocess.call(['git', '-C', wt, 'checkout', '-q', '--', '.'])
        subprocess.call(['git', '-C', wt, 'clean', '-fdq'])
        shutil.rmtree(evbak, ignore_errors=True)
    else:
        subprocess.call(['git', '-C', '/repo', 'worktree', 'remove', '--force', wt], stdout=subprocess.DEVNULL, stderr=subprocess.DEVNULL)
        shutil.rmtree(wt, ignore_errors=True); shutil.rmtree(bdir, ignore_errors=True); shutil.rmtree(evbak, ignore_errors=True)
