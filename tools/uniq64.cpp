// uniq64 FILE...: each file holds sorted little-endian uint64 values; prints the size of their union.
#include <cstdint>
#include <cstdio>
#include <queue>
#include <vector>
struct Src { FILE* f; uint64_t buf[8192]; size_t n = 0, i = 0; bool next(uint64_t& v) { if (i == n) { n = fread(buf, 8, 8192, f); i = 0; if (!n) return false; } v = buf[i++]; return true; } };
int main(int argc, char** argv) {
  std::vector<Src*> s; typedef std::pair<uint64_t, size_t> P;
  std::priority_queue<P, std::vector<P>, std::greater<P>> q;
  for (int a = 1; a < argc; a++) { FILE* f = fopen(argv[a], "rb"); if (!f) continue; Src* x = new Src; x->f = f; s.push_back(x); uint64_t v; if (x->next(v)) q.push({v, s.size() - 1}); }
  uint64_t count = 0, last = 0; bool have = false;
  while (!q.empty()) { P p = q.top(); q.pop(); if (!have || p.first != last) { count++; last = p.first; have = true; } uint64_t v; if (s[p.second]->next(v)) q.push({v, p.second}); }
  printf("%llu\n", (unsigned long long)count);
  return 0;
}
