#!/bin/sh
# tools/run_subset.sh TIER ID...: the named checks one after the other, one summary line each
cd "$(dirname "$0")/.."
tier=$1; shift
for p in "$@"; do
  ./check $p --tier $tier > /tmp/vsub.$$ 2>&1; rc=$?
  grep -E "^(C[0-9]+ |VIOLATION|KNOWN|note|BUILD)" /tmp/vsub.$$ | cut -c1-300
  [ $rc -ne 0 ] && echo "   !! $p exit=$rc"
done
rm -f /tmp/vsub.$$
