#!/usr/bin/env python3
"""Regenerate the seeded-change table in DESIGN.md (between the SEEDTABLE markers) from
seeded/*/meta.json and seeded/results.jsonl."""
import json, os, re
V = os.path.dirname(os.path.dirname(os.path.abspath(__file__)))
res = {}
for fn in ('results-round1.jsonl', 'results.jsonl'):
    p = os.path.join(V, 'seeded', fn)
    if not os.path.exists(p): continue
    for l in open(p):
        d = json.loads(l)
        for o in d['output']:
            m = re.match(r'^(C\d+) (DETECTED|MISSED|BUILD-FAILED) in ([\d.]+)s', o)
            if m: res.setdefault(d['seed'], {})[m.group(1)] = (m.group(2), float(m.group(3)))
rows = ['| seed | needs | check → outcome (quick tier, seconds incl. rebuild) |', '|---|---|---|']
for sid in sorted(os.listdir(os.path.join(V, 'seeded'))):
    mp = os.path.join(V, 'seeded', sid, 'meta.json')
    if not os.path.exists(mp): continue
    m = json.load(open(mp))
    r = res.get(sid, {})
    if r:
        m['checks_run'] = {k: {'verdict': v[0], 'seconds': v[1]} for k, v in r.items()}
        json.dump(m, open(mp, 'w'), indent=1)
    cr = m.get('checks_run', {})
    out = ', '.join('%s → %s%s' % (k, v['verdict'].lower(), (' (%.0f s)' % v['seconds']) if 'seconds' in v else '') for k, v in sorted(cr.items()))
    if sid == 'C10-b': out += ' — outside the domain of C10, see below'
    rows.append('| %s | %s | %s |' % (sid, m.get('needs_to_manifest', ''), out))
table = '<!-- SEEDTABLE-BEGIN -->\n' + '\n'.join(rows) + '\n<!-- SEEDTABLE-END -->'
p = os.path.join(V, 'DESIGN.md'); s = open(p).read()
if 'SEEDTABLE-BEGIN' in s:
    s = re.sub(r'<!-- SEEDTABLE-BEGIN -->.*?<!-- SEEDTABLE-END -->', lambda _: table, s, flags=re.S)
else:
    s = s.replace('\nSEEDTABLE\n', '\n' + table + '\n')
open(p, 'w').write(s)
print(len(rows) - 2, 'rows')
# ---- own mutants / benign refactorings
op = os.path.join(V, 'seeded', 'own', 'results.jsonl')
if os.path.exists(op):
    last = {}
    for l in open(op):
        d = json.loads(l)
        if d['mutant'] in last:   # later runs override earlier verdicts property by property
            v = dict(last[d['mutant']]['verdicts']); v.update(d['verdicts']); d['verdicts'] = v
        last[d['mutant']] = d
    exp = json.load(open(os.path.join(V, 'seeded', 'own', 'expected.json')))
    r2 = ['| change | unedited suite passes with it | checks run → outcome |', '|---|---|---|']
    for name in sorted(last):
        if name not in exp: continue
        d = last[name]
        if name.startswith('B-'):
            alarms = sorted(k for k, x in d['verdicts'].items() if x != 'MISSED')
            v = '%d checks run, no alarm' % len(d['verdicts']) if not alarms else '%d checks run, ALARM from %s' % (len(d['verdicts']), ', '.join(alarms))
        else:
            v = ', '.join('%s %s' % (k, x.lower()) for k, x in sorted(d['verdicts'].items()))
        r2.append('| %s | %s | %s |' % (name, 'yes' if d['suite_passes_with_patch'] else 'no (the existing tests already catch it)', v))
    t2 = '<!-- OWNTABLE-BEGIN -->\n' + '\n'.join(r2) + '\n<!-- OWNTABLE-END -->'
    s = open(p).read()
    if 'OWNTABLE-BEGIN' in s:
        s = re.sub(r'<!-- OWNTABLE-BEGIN -->.*?<!-- OWNTABLE-END -->', lambda _: t2, s, flags=re.S)
        open(p, 'w').write(s)
    print(len(r2) - 2, 'own rows')
