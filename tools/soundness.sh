#!/bin/sh
# every quick check with several VERIF_SEED values on the unchanged tree; any VIOLATION / note / non-zero exit is printed
cd "$(dirname "$0")/.."
for seed in ${SEEDS:-2 3 7 12345}; do
  for p in $(python3 -c "import json;print(' '.join(c['property_id'] for c in json.load(open('MANIFEST.json'))['checks']))"); do
    VERIF_SEED=$seed VERIF_EVIDENCE=/tmp/vsound-ev VERIF_REPLAYS=/tmp/vsound-rp ./check $p --tier quick > /tmp/vsound.out 2>&1; rc=$?
    out=$(grep -v '^WARNING' /tmp/vsound.out)
    echo "$out" | grep -E "^(C[0-9]+ )" | cut -c1-120
    echo "$out" | grep -E "^(VIOLATION|KNOWN|BUILD|note)" | cut -c1-300
    [ $rc -ne 0 ] && echo "   !! $p seed=$seed exit=$rc"
  done
done
rm -rf /tmp/vsound-ev
