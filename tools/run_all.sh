#!/bin/sh
# run every check of MANIFEST.json at the given tier (default quick); one summary line each
tier=${1:-quick}
cd "$(dirname "$0")/.."
for p in $(python3 -c "import json;print(' '.join(c['property_id'] for c in json.load(open('MANIFEST.json'))['checks']))"); do
  s=$(date +%s)
  ./check $p --tier $tier > /tmp/vrunall.$$.out 2>&1
  rc=$?
  out=$(grep -v '^WARNING' /tmp/vrunall.$$.out); rm -f /tmp/vrunall.$$.out
  e=$(date +%s)
  echo "$out" | grep -E "^(C[0-9]+ |VIOLATION|KNOWN|BUILD|note)" | cut -c1-220 | head -4
  echo "   -> $p exit=$rc wall=$((e-s))s"
done
