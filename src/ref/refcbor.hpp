// refcbor — an independent reference model of RFC 8949 CBOR restricted to libcbor's
// documented profile.  Written from RFC 8949 section 3 and Appendix C; shares no code and no
// structure with libcbor (one iterative classifier with an explicit frame vector and a
// *set* of admissible failure verdicts; no callbacks).  Includes no libcbor header.
//
//   read_head / tokenise   : item heads (C08, C09, C10)
//   classify               : accept / admissible {code, position} set + AST (C02, C05, C14, C19)
//   encode                 : AST -> bytes (C03, C07, C11)
//   half/single/double     : IEEE-754 conversions by integer manipulation (C15)
//   utf8_count             : RFC 3629 validator by range tables (C16)
#pragma once
#include <cstdint>
#include <cstring>
#include <string>
#include <vector>

namespace ref {

typedef std::vector<uint8_t> Bytes;
typedef unsigned __int128 u128;

enum Kind {
  K_UINT, K_NEGINT, K_BSTR, K_TSTR, K_ARR, K_MAP, K_TAG,
  K_FALSE, K_TRUE, K_NULL, K_UNDEF, K_HALF, K_SINGLE, K_DOUBLE,
  K_BSTR_INDEF, K_TSTR_INDEF, K_ARR_INDEF, K_MAP_INDEF, K_BREAK
};
static inline const char* kind_name(int k) {
  static const char* n[] = {"uint", "negint", "bstr", "tstr", "array", "map", "tag", "false", "true", "null", "undef",
                            "half", "single", "double", "bstr_indef", "tstr_indef", "array_indef", "map_indef", "break"};
  return (k >= 0 && k <= K_BREAK) ? n[k] : "?";
}

struct Head {
  size_t off = 0;      // offset of the initial byte
  uint8_t ib = 0;      // initial byte
  int kind = 0;        // Kind
  int argw = 0;        // argument bytes following the initial byte: 0 (immediate), 1, 2, 4, 8
  uint64_t arg = 0;    // argument value (ai for immediates; raw bits for floats)
  size_t hlen = 1;     // 1 + argw
  u128 total = 1;      // hlen, plus payload length for definite strings
};

enum HeadStatus { H_OK, H_RESERVED, H_INCOMPLETE };

// Is the initial byte outside the supported profile?  Decided from the byte alone.
static inline bool ib_reserved(uint8_t ib) {
  unsigned mt = ib >> 5, ai = ib & 31;
  if (ai >= 28 && ai <= 30) return true;
  if (ai == 31) return mt == 0 || mt == 1 || mt == 6;
  if (mt == 7) return ai <= 19 || ai == 24;  // unassigned simple values, and the one-byte simple form
  return false;
}

// Reads the head at offset p of b[0..n).  On H_INCOMPLETE, *need is the number of bytes,
// counted from p, that the complete head and (for definite strings) payload occupy as far as
// can be known: 1 if the initial byte is missing, hlen if the argument is cut, hlen+arg if
// only the payload is cut.  *need_lo is the smallest count that any correct decoder could
// ask for (strictly more than available).
static inline HeadStatus read_head(const uint8_t* b, size_t n, size_t p, Head& h, u128* need = nullptr) {
  h = Head(); h.off = p;
  if (p >= n) { if (need) *need = 1; return H_INCOMPLETE; }
  uint8_t ib = b[p]; h.ib = ib;
  if (ib_reserved(ib)) return H_RESERVED;
  unsigned mt = ib >> 5, ai = ib & 31;
  int argw = ai < 24 ? 0 : ai == 24 ? 1 : ai == 25 ? 2 : ai == 26 ? 4 : ai == 27 ? 8 : 0;
  h.argw = argw; h.hlen = 1 + (size_t)argw; h.total = h.hlen;
  if (ai == 31) {
    h.kind = mt == 2 ? K_BSTR_INDEF : mt == 3 ? K_TSTR_INDEF : mt == 4 ? K_ARR_INDEF : mt == 5 ? K_MAP_INDEF : K_BREAK;
    return H_OK;
  }
  if (n - p < h.hlen) {
    // the argument is cut.  What the pending item is known to occupy at least: the head, plus — for a definite
    // string — the smallest payload the length bytes seen so far still allow (missing low-order bytes taken as 0)
    if (need) {
      u128 least = h.hlen;
      if (mt == 2 || mt == 3) {
        size_t have = n - p - 1; u128 partial = 0;
        for (size_t i = 0; i < have; i++) partial = (partial << 8) | b[p + 1 + i];
        partial <<= 8 * ((size_t)argw - have);
        least += partial;
      }
      *need = least;
    }
    return H_INCOMPLETE;
  }
  uint64_t arg = ai;
  if (argw) { arg = 0; for (int i = 0; i < argw; i++) arg = (arg << 8) | b[p + 1 + i]; }
  h.arg = arg;
  switch (mt) {
    case 0: h.kind = K_UINT; break;
    case 1: h.kind = K_NEGINT; break;
    case 2: h.kind = K_BSTR; break;
    case 3: h.kind = K_TSTR; break;
    case 4: h.kind = K_ARR; break;
    case 5: h.kind = K_MAP; break;
    case 6: h.kind = K_TAG; break;
    default:
      h.kind = ai == 20 ? K_FALSE : ai == 21 ? K_TRUE : ai == 22 ? K_NULL : ai == 23 ? K_UNDEF : ai == 25 ? K_HALF : ai == 26 ? K_SINGLE : K_DOUBLE;
  }
  if (mt == 2 || mt == 3) {
    h.total = (u128)h.hlen + arg;
    if ((u128)(n - p) < h.total) { if (need) *need = h.total; return H_INCOMPLETE; }
  }
  return H_OK;
}

// All heads of b in order, stopping at the first reserved byte or incomplete head.
struct TokStream { std::vector<Head> heads; HeadStatus end = H_OK; size_t end_off = 0; u128 end_need = 0; };
static inline TokStream tokenise(const uint8_t* b, size_t n) {
  TokStream t; size_t p = 0;
  while (p < n) {
    Head h; u128 need = 0;
    HeadStatus s = read_head(b, n, p, h, &need);
    if (s != H_OK) { t.end = s; t.end_off = p; t.end_need = need; return t; }
    t.heads.push_back(h);
    p += (size_t)h.total;
  }
  t.end = H_OK; t.end_off = p;
  return t;
}

// ---- AST -------------------------------------------------------------------------------
struct Node {
  int type = 0;          // major type 0..7
  int width = 0;         // ints: 0..3 = 8/16/32/64-bit storage.  type 7: 0 = simple value, 1 half, 2 single, 3 double
  uint64_t value = 0;    // int value, tag number, simple value, or the raw IEEE bits at the item's width
  bool indef = false;    // strings, arrays, maps
  Bytes bytes;           // definite strings
  std::vector<Node> kids;  // array members; map key,value,key,value...; tag content; chunks
};
static inline size_t node_count(const Node& n) { size_t c = 1; for (auto& k : n.kids) c += node_count(k); return c; }
static inline size_t node_depth(const Node& n) { size_t d = 0; for (auto& k : n.kids) { size_t x = node_depth(k); if (x > d) d = x; } return d + 1; }

// ---- IEEE-754 by integer manipulation ----------------------------------------------------
// half bits -> single bits (exact; every half is representable)
static inline uint32_t half_to_single_bits(uint16_t h) {
  uint32_t sign = (uint32_t)(h & 0x8000) << 16;
  uint32_t e = (h >> 10) & 0x1f, m = h & 0x3ff;
  if (e == 0) {
    if (m == 0) return sign;
    // subnormal: value = m * 2^-24; normalise
    int shift = 0;
    while (!(m & 0x400)) { m <<= 1; shift++; }
    m &= 0x3ff;
    uint32_t exp = (uint32_t)(127 - 15 - shift + 1);
    return sign | (exp << 23) | (m << 13);
  }
  if (e == 31) return sign | 0x7f800000u | (m << 13);
  return sign | ((e + 112) << 23) | (m << 13);
}
// single bits -> half bits if exactly representable (non-NaN); returns false otherwise
static inline bool single_to_half_exact(uint32_t f, uint16_t* out) {
  uint16_t sign = (uint16_t)((f >> 16) & 0x8000);
  uint32_t e = (f >> 23) & 0xff, m = f & 0x7fffff;
  if (e == 0xff) { if (m) return false; *out = sign | 0x7c00; return true; }
  if (e == 0) { if (m) return false; *out = sign; return true; }  // single subnormals are far below half range
  int le = (int)e - 127;
  if (le > 15) return false;
  if (le >= -14) { if (m & 0x1fff) return false; *out = (uint16_t)(sign | ((le + 15) << 10) | (m >> 13)); return true; }
  if (le < -24) return false;
  // half subnormal: value = (1.m) * 2^le = k * 2^-24
  uint32_t full = m | 0x800000;          // 24-bit significand, value = full * 2^(le-23)
  int rshift = -le - 1;                   // want k = full * 2^(le-23+24) = full >> (-le-1)
  if (rshift >= 32 || (full & ((1u << rshift) - 1))) return false;
  *out = (uint16_t)(sign | (full >> rshift));
  return true;
}
static inline bool single_is_nan(uint32_t f) { return (f & 0x7f800000u) == 0x7f800000u && (f & 0x7fffff); }
static inline bool double_is_nan(uint64_t d) { return (d & 0x7ff0000000000000ULL) == 0x7ff0000000000000ULL && (d & 0xfffffffffffffULL); }
static inline bool half_is_nan(uint16_t h) { return (h & 0x7c00) == 0x7c00 && (h & 0x3ff); }

// ---- encoder -----------------------------------------------------------------------------
static inline void put_head(Bytes& o, unsigned mt, uint64_t v, int forced_argw = -1) {
  int w = forced_argw;
  if (w < 0) w = v < 24 ? 0 : v <= 0xff ? 1 : v <= 0xffff ? 2 : v <= 0xffffffffULL ? 4 : 8;
  uint8_t ai = w == 0 ? (uint8_t)v : w == 1 ? 24 : w == 2 ? 25 : w == 4 ? 26 : 27;
  o.push_back((uint8_t)((mt << 5) | ai));
  for (int i = w - 1; i >= 0; i--) o.push_back((uint8_t)(v >> (8 * i)));
}
// The encoding libcbor is specified (C03) to produce for a tree: ints and floats at stored
// width (8-bit ints <= 23 immediate), shortest heads for lengths / counts / tags, indefinite
// items break-terminated, NaN canonical per width.
static inline void encode(const Node& n, Bytes& o) {
  switch (n.type) {
    case 0: case 1: {
      int w = n.width == 0 ? (n.value < 24 ? 0 : 1) : n.width == 1 ? 2 : n.width == 2 ? 4 : 8;
      put_head(o, (unsigned)n.type, n.value, w);
      break;
    }
    case 2: case 3:
      if (n.indef) { o.push_back((uint8_t)((n.type << 5) | 31)); for (auto& k : n.kids) encode(k, o); o.push_back(0xff); }
      else { put_head(o, (unsigned)n.type, n.bytes.size()); o.insert(o.end(), n.bytes.begin(), n.bytes.end()); }
      break;
    case 4:
      if (n.indef) o.push_back(0x9f); else put_head(o, 4, n.kids.size());
      for (auto& k : n.kids) encode(k, o);
      if (n.indef) o.push_back(0xff);
      break;
    case 5:
      if (n.indef) o.push_back(0xbf); else put_head(o, 5, n.kids.size() / 2);
      for (auto& k : n.kids) encode(k, o);
      if (n.indef) o.push_back(0xff);
      break;
    case 6:
      put_head(o, 6, n.value);
      for (auto& k : n.kids) encode(k, o);
      break;
    default:
      if (n.width == 0) put_head(o, 7, n.value, n.value < 24 ? 0 : 1);
      else if (n.width == 1) { uint16_t h = (uint16_t)n.value; if (half_is_nan(h)) h = 0x7e00; put_head(o, 7, h, 2); }
      else if (n.width == 2) { uint32_t f = (uint32_t)n.value; if (single_is_nan(f)) f = 0x7fc00000u; put_head(o, 7, f, 4); }
      else { uint64_t d = n.value; if (double_is_nan(d)) d = 0x7ff8000000000000ULL; put_head(o, 7, d, 8); }
  }
}
static inline Bytes encode(const Node& n) { Bytes o; encode(n, o); return o; }

// Structural equality with NaN == NaN at equal width.
static inline bool node_equal(const Node& a, const Node& b, std::string* why = nullptr, std::string path = "") {
  auto fail = [&](const char* w) { if (why) *why = path + ": " + w; return false; };
  if (a.type != b.type) return fail("major type differs");
  if (a.type <= 1) { if (a.width != b.width) return fail("integer width differs"); if (a.value != b.value) return fail("integer value differs"); return true; }
  if (a.type == 7) {
    if (a.width != b.width) return fail("float/simple width differs");
    bool an = a.width == 1 ? half_is_nan((uint16_t)a.value) : a.width == 2 ? single_is_nan((uint32_t)a.value) : a.width == 3 ? double_is_nan(a.value) : false;
    bool bn = b.width == 1 ? half_is_nan((uint16_t)b.value) : b.width == 2 ? single_is_nan((uint32_t)b.value) : b.width == 3 ? double_is_nan(b.value) : false;
    if (an || bn) return (an && bn) ? true : fail("NaN vs non-NaN");
    if (a.value != b.value) return fail("float bits / simple value differ");
    return true;
  }
  if (a.type == 6) { if (a.value != b.value) return fail("tag number differs"); }
  else {
    if (a.indef != b.indef) return fail("definite/indefinite flavour differs");
    if ((a.type == 2 || a.type == 3) && !a.indef) { if (a.bytes != b.bytes) return fail("string bytes differ"); return true; }
  }
  if (a.kids.size() != b.kids.size()) return fail("member / chunk count differs");
  for (size_t i = 0; i < a.kids.size(); i++)
    if (!node_equal(a.kids[i], b.kids[i], why, path + "/" + std::to_string(i))) return false;
  return true;
}

// ---- classifier ------------------------------------------------------------------------
enum Code { E_NONE = 0, E_NOTENOUGHDATA = 1, E_NODATA = 2, E_MALFORMATED = 3, E_MEMERROR = 4, E_SYNTAXERROR = 5 };
static inline const char* code_name(int c) {
  static const char* n[] = {"NONE", "NOTENOUGHDATA", "NODATA", "MALFORMATED", "MEMERROR", "SYNTAXERROR"};
  return (c >= 0 && c <= 5) ? n[c] : "?";
}
struct Verdict1 { int code; size_t pos; };
struct Policy {
  size_t max_depth = 2048;          // nesting limit L
  // Offset just past the head during which the allocator was OBSERVED to refuse a request, or
  // (size_t)-1.  The model never predicts refusals from declared counts: how much an implementation
  // allocates for a head (exact, over-allocated, lazily grown) is its own business.
  size_t refuse_at = (size_t)-1;
};
struct Classified {
  bool accept = false;
  size_t read = 0;                  // encoded length of the first item (on accept)
  Node ast;                         // on accept
  std::vector<Verdict1> admissible; // on reject: one entry, or two when late detection is allowed
  bool prefix_of_acceptable = false;  // the input is a proper prefix of some acceptable item (pure truncation)
  size_t heads = 0;                 // complete heads consumed
  size_t max_open = 0;              // deepest nesting reached
  bool admits(int code, size_t pos) const { for (auto& v : admissible) if (v.code == code && v.pos == pos) return true; return false; }
};

struct Frame_ {
  int kind;             // K_ARR, K_MAP, K_TAG, K_ARR_INDEF, K_MAP_INDEF, K_BSTR_INDEF, K_TSTR_INDEF
  u128 remaining;       // definite array: members left; definite map: keys+values left
  int parity;           // indefinite map: 1 while a value is pending
  Node node;
  bool poisoned;        // a non-chunk item opened directly inside a chunked string
};

static inline Classified classify(const uint8_t* b, size_t n, const Policy& pol = Policy()) {
  Classified R;
  if (n == 0) { R.admissible.push_back({E_NODATA, 0}); return R; }
  std::vector<Frame_> st;
  size_t p = 0;
  bool have_eager = false; Verdict1 eager{0, 0};
  std::vector<Verdict1> alts;   // further admissible early verdicts (a count no implementation can preallocate)
  bool hard_truncation_only = true;  // stays true while nothing structurally wrong has been seen
  auto out = [&](int code, size_t pos) -> Classified& {
    if (have_eager) R.admissible.push_back(eager);
    for (auto& a : alts) if (!R.admits(a.code, a.pos)) R.admissible.push_back(a);
    if (!R.admits(code, pos)) R.admissible.push_back({code, pos});
    R.prefix_of_acceptable = (code == E_NOTENOUGHDATA) && !have_eager && alts.empty() && hard_truncation_only;
    return R;
  };
  for (;;) {
    if (p == n) return out(E_NOTENOUGHDATA, p);
    Head h; u128 need;
    HeadStatus hs = read_head(b, n, p, h, &need);
    if (hs == H_RESERVED) return out(E_MALFORMATED, p);
    if (hs == H_INCOMPLETE) {
      // Is the cut head itself something a continuation could make legal here?  For the
      // "proper prefix of an acceptable item" clause we must know; be conservative: a cut head
      // whose initial byte would already be illegal in this position is not a pure truncation.
      if (!st.empty()) {
        Frame_& t = st.back();
        unsigned mt = h.ib >> 5; bool indef_or_break = (h.ib & 31) == 31;
        if (t.kind == K_BSTR_INDEF || t.kind == K_TSTR_INDEF) {
          unsigned want = t.kind == K_BSTR_INDEF ? 2 : 3;
          if (mt != want || indef_or_break) hard_truncation_only = false;
        }
      }
      return out(E_NOTENOUGHDATA, p);
    }
    R.heads++;
    size_t q = p + (size_t)h.total;
    if (q == pol.refuse_at && h.kind != K_BREAK) {
      bool in_chunked = !st.empty() && (st.back().kind == K_BSTR_INDEF || st.back().kind == K_TSTR_INDEF);
      bool opener = !(h.kind == K_UINT || h.kind == K_NEGINT || h.kind == K_BSTR || h.kind == K_TSTR || h.kind == K_FALSE || h.kind == K_TRUE || h.kind == K_NULL || h.kind == K_UNDEF ||
                      h.kind == K_HALF || h.kind == K_SINGLE || h.kind == K_DOUBLE);
      if (in_chunked && opener && !have_eager) { have_eager = true; eager = {E_SYNTAXERROR, q}; }
      return out(E_MEMERROR, q);
    }
    Frame_* top = st.empty() ? nullptr : &st.back();
    bool top_chunked = top && (top->kind == K_BSTR_INDEF || top->kind == K_TSTR_INDEF);
    bool completes = false;  // an item finished at q
    Node done;
    switch (h.kind) {
      case K_BREAK:
        if (!top || !(top->kind == K_ARR_INDEF || top->kind == K_MAP_INDEF || top->kind == K_BSTR_INDEF || top->kind == K_TSTR_INDEF) ||
            (top->kind == K_MAP_INDEF && top->parity == 1))
          return out(E_SYNTAXERROR, q);
        done = std::move(top->node); st.pop_back(); completes = true;
        break;
      case K_BSTR: case K_TSTR: {
        Node s; s.type = h.kind == K_BSTR ? 2 : 3; s.bytes.assign(b + p + h.hlen, b + q);
        if (top_chunked) {
          bool same = (top->kind == K_BSTR_INDEF) == (h.kind == K_BSTR);
          if (!same) return out(E_SYNTAXERROR, q);
          top->node.kids.push_back(std::move(s));
        } else { done = std::move(s); completes = true; }
        break;
      }
      case K_UINT: case K_NEGINT: case K_FALSE: case K_TRUE: case K_NULL: case K_UNDEF: case K_HALF: case K_SINGLE: case K_DOUBLE: {
        if (top_chunked) return out(E_SYNTAXERROR, q);
        Node s;
        if (h.kind == K_UINT || h.kind == K_NEGINT) { s.type = h.kind == K_UINT ? 0 : 1; s.width = h.argw <= 1 ? 0 : h.argw == 2 ? 1 : h.argw == 4 ? 2 : 3; s.value = h.arg; }
        else if (h.kind == K_HALF) { s.type = 7; s.width = 1; s.value = h.arg; }
        else if (h.kind == K_SINGLE) { s.type = 7; s.width = 2; s.value = h.arg; }
        else if (h.kind == K_DOUBLE) { s.type = 7; s.width = 3; s.value = h.arg; }
        else { s.type = 7; s.width = 0; s.value = h.arg; }
        done = std::move(s); completes = true;
        break;
      }
      default: {  // openers: K_ARR, K_MAP, K_TAG and the four indefinite starts
        bool empty_def = (h.kind == K_ARR || h.kind == K_MAP) && h.arg == 0;
        if (empty_def) {
          if (top_chunked) return out(E_SYNTAXERROR, q);
          Node s; s.type = h.kind == K_ARR ? 4 : 5; done = std::move(s); completes = true;
          break;
        }
        if (top_chunked && !have_eager) { have_eager = true; eager = {E_SYNTAXERROR, q}; hard_truncation_only = false; }
        // A declared count of 2^56 or more cannot be preallocated by any implementation (the byte size overflows or
        // exceeds every address space): refusing it on the spot is legitimate even though the installed allocator never
        // sees a request; an implementation that grows lazily simply carries on.  Both verdicts are admitted.
        if ((h.kind == K_ARR || h.kind == K_MAP) && h.arg >= ((uint64_t)1 << 56)) alts.push_back({E_MEMERROR, q});
        if (st.size() >= pol.max_depth) return out(E_MEMERROR, q);
        Frame_ f; f.kind = h.kind; f.parity = 0; f.poisoned = top_chunked; f.remaining = 0;
        if (h.kind == K_ARR) { f.remaining = h.arg; f.node.type = 4; }
        else if (h.kind == K_MAP) { f.remaining = (u128)h.arg * 2; f.node.type = 5; }
        else if (h.kind == K_TAG) { f.node.type = 6; f.node.value = h.arg; }
        else if (h.kind == K_ARR_INDEF) { f.node.type = 4; f.node.indef = true; }
        else if (h.kind == K_MAP_INDEF) { f.node.type = 5; f.node.indef = true; }
        else if (h.kind == K_BSTR_INDEF) { f.node.type = 2; f.node.indef = true; }
        else { f.node.type = 3; f.node.indef = true; }
        st.push_back(std::move(f));
        if (st.size() > R.max_open) R.max_open = st.size();
      }
    }
    // propagate completion upwards
    while (completes) {
      if (st.empty()) { R.accept = true; R.read = q; R.ast = std::move(done); R.admissible.clear(); return R; }
      Frame_& t = st.back();
      switch (t.kind) {
        case K_BSTR_INDEF: case K_TSTR_INDEF:
          // only reachable after a late-detected opener: the poisoned item completes here
          return out(E_SYNTAXERROR, q);
        case K_ARR: case K_MAP:
          t.node.kids.push_back(std::move(done));
          t.remaining -= 1;
          if (t.remaining > 0) { completes = false; break; }
          done = std::move(t.node); st.pop_back();
          break;
        case K_ARR_INDEF:
          t.node.kids.push_back(std::move(done)); completes = false; break;
        case K_MAP_INDEF:
          t.node.kids.push_back(std::move(done)); t.parity ^= 1; completes = false; break;
        case K_TAG:
          t.node.kids.push_back(std::move(done));
          done = std::move(t.node); st.pop_back();
          break;
      }
    }
    p = q;
  }
}

// ---- UTF-8 (RFC 3629) ------------------------------------------------------------------
// Number of Unicode scalar values if b[0..n) is valid UTF-8, else -1.  By range tables:
//   00-7F | C2-DF 80-BF | E0 A0-BF 80-BF | E1-EC,EE-EF 80-BF 80-BF | ED 80-9F 80-BF |
//   F0 90-BF 80-BF 80-BF | F1-F3 80-BF 80-BF 80-BF | F4 80-8F 80-BF 80-BF
static inline long long utf8_count(const uint8_t* b, size_t n) {
  size_t i = 0; long long c = 0;
  auto cont = [&](size_t k, uint8_t lo, uint8_t hi) { return k < n && b[k] >= lo && b[k] <= hi; };
  while (i < n) {
    uint8_t x = b[i];
    if (x <= 0x7f) { i += 1; }
    else if (x >= 0xc2 && x <= 0xdf) { if (!cont(i + 1, 0x80, 0xbf)) return -1; i += 2; }
    else if (x == 0xe0) { if (!cont(i + 1, 0xa0, 0xbf) || !cont(i + 2, 0x80, 0xbf)) return -1; i += 3; }
    else if ((x >= 0xe1 && x <= 0xec) || x == 0xee || x == 0xef) { if (!cont(i + 1, 0x80, 0xbf) || !cont(i + 2, 0x80, 0xbf)) return -1; i += 3; }
    else if (x == 0xed) { if (!cont(i + 1, 0x80, 0x9f) || !cont(i + 2, 0x80, 0xbf)) return -1; i += 3; }
    else if (x == 0xf0) { if (!cont(i + 1, 0x90, 0xbf) || !cont(i + 2, 0x80, 0xbf) || !cont(i + 3, 0x80, 0xbf)) return -1; i += 4; }
    else if (x >= 0xf1 && x <= 0xf3) { if (!cont(i + 1, 0x80, 0xbf) || !cont(i + 2, 0x80, 0xbf) || !cont(i + 3, 0x80, 0xbf)) return -1; i += 4; }
    else if (x == 0xf4) { if (!cont(i + 1, 0x80, 0x8f) || !cont(i + 2, 0x80, 0xbf) || !cont(i + 3, 0x80, 0xbf)) return -1; i += 4; }
    else return -1;
    c++;
  }
  return c;
}

}  // namespace ref
