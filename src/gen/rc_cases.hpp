#pragma once
#include <cstdint>
#include <functional>
#include <string>
#include "common/harness.hpp"
namespace rcg {
typedef std::function<bool(const vh::Case&)> Oracle;   // true = the case passed (or lies outside the domain)
// Runs rc::check over the named generator ("ast", "astok", "deep", "pair", "prog", "hist", "frag", "head", "utf8").
// Returns false when falsified; `minimal` then holds the shrunk failing case.
bool run(const std::string& gen, const Oracle& oracle, vh::Case& minimal, uint64_t* generated);
}
