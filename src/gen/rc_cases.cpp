// rapidcheck generators.  This translation unit includes no libcbor header: it generates plain
// Cases (campaign, aux, data) and hands them to an oracle callback supplied by the driver, so a
// change to libcbor never recompiles it.  All randomness comes from rapidcheck (RC_PARAMS
// "seed=N max_success=M max_size=S"), so failures shrink and replay.
#include <rapidcheck.h>
#include <cstdint>
#include <functional>
#include <string>
#include <vector>
#include "common/harness.hpp"
#include "ref/refcbor.hpp"
#include "gen/rc_cases.hpp"

using vh::Case;
typedef std::vector<uint8_t> Bytes;

namespace {

// inRange collapses at small sizes unless resized (observed in earlier sessions)
template <typename T> T pick(T lo, T hi) { return *rc::gen::resize(100, rc::gen::inRange<T>(lo, (T)(hi + 1))); }
uint64_t pick_u64() {
  int sel = pick<int>(0, 9);
  static const uint64_t b[] = {0, 23, 24, 255, 256, 65535, 65536, 0xffffffffull, 0x100000000ull, ~0ull};
  if (sel < 4) return b[pick<int>(0, 9)];
  int bits = pick<int>(1, 64);
  uint64_t v = *rc::gen::arbitrary<uint64_t>();
  return bits == 64 ? v : (v & ((1ull << bits) - 1));
}

// An encodable tree with encoding choices attached (head widths may be non-minimal).
struct ENode {
  int kind = 0;            // 0 uint 1 negint 2 bstr 3 tstr 4 arr 5 map 6 tag 7 simple 8 half 9 single 10 double 11 ibstr 12 itstr 13 iarr 14 imap
  uint64_t value = 0;      // int value / tag / simple / float bits
  int width = 0;           // head width selector 0..4 (0 = shortest possible; otherwise 1,2,4,8 bytes if the value fits)
  Bytes bytes;
  std::vector<ENode> kids;
};

int g_budget = 0;   // nodes still allowed in the item being generated (keeps trees a few hundred nodes at most)
ENode gen_node(int depth);
ENode gen_leaf() {
  g_budget--;
  ENode n; int k = pick<int>(0, 11);
  switch (k) {
    case 0: case 1: n.kind = k; n.value = pick_u64(); n.width = pick<int>(0, 4); break;
    case 2: case 3: { n.kind = k; int len = pick<int>(0, 6) == 0 ? pick<int>(20, 40) : pick<int>(0, 5); n.bytes = *rc::gen::container<Bytes>((size_t)len, rc::gen::arbitrary<uint8_t>()); n.width = pick<int>(0, 4); break; }
    case 4: n.kind = 7; n.value = (uint64_t)pick<int>(20, 23); break;
    case 5: n.kind = 8; n.value = pick<int>(0, 3) == 0 ? (uint64_t)pick<int>(0x7c00, 0x7c02) : (uint64_t)pick<int>(0, 0xffff); break;
    case 6: n.kind = 9; n.value = pick_u64() & 0xffffffffull; break;
    case 7: n.kind = 10; n.value = pick_u64(); break;
    case 8: n.kind = 4; n.width = pick<int>(0, 4); break;      // empty array
    case 9: n.kind = 5; n.width = pick<int>(0, 4); break;      // empty map
    case 10: { n.kind = 11 + pick<int>(0, 1); int chunks = pick<int>(0, 3); for (int i = 0; i < chunks; i++) { ENode c; c.kind = n.kind == 11 ? 2 : 3; c.bytes = *rc::gen::container<Bytes>((size_t)pick<int>(0, 4), rc::gen::arbitrary<uint8_t>()); c.width = pick<int>(0, 2); n.kids.push_back(c); } break; }
    default: n.kind = 13 + pick<int>(0, 1); break;              // empty indefinite array / map
  }
  return n;
}
ENode gen_node(int depth) {
  if (depth <= 0 || g_budget <= 0 || pick<int>(0, 2) == 0) return gen_leaf();
  g_budget--;
  ENode n; int k = pick<int>(0, 4);
  int fan = pick<int>(0, 9) == 0 ? pick<int>(4, 9) : pick<int>(1, 3);
  switch (k) {
    case 0: n.kind = 4; n.width = pick<int>(0, 4); for (int i = 0; i < fan; i++) n.kids.push_back(gen_node(depth - 1)); break;
    case 1: n.kind = 5; n.width = pick<int>(0, 4); for (int i = 0; i < 2 * ((fan + 1) / 2); i++) n.kids.push_back(gen_node(depth - 1)); break;
    case 2: n.kind = 6; n.value = pick_u64(); n.width = pick<int>(0, 4); n.kids.push_back(gen_node(depth - 1)); break;
    case 3: n.kind = 13; for (int i = 0; i < fan; i++) n.kids.push_back(gen_node(depth - 1)); break;
    default: n.kind = 14; for (int i = 0; i < 2 * ((fan + 1) / 2); i++) n.kids.push_back(gen_node(depth - 1)); break;
  }
  return n;
}
int width_for(uint64_t v, int sel) {
  int minw = v < 24 ? 0 : v <= 0xff ? 1 : v <= 0xffff ? 2 : v <= 0xffffffffull ? 4 : 8;
  static const int w[] = {0, 1, 2, 4, 8};
  int want = w[sel];
  return want >= minw ? (sel == 0 ? minw : want) : minw;
}
void encode(const ENode& n, Bytes& o) {
  switch (n.kind) {
    case 0: case 1: ref::put_head(o, (unsigned)n.kind, n.value, width_for(n.value, n.width)); break;
    case 2: case 3: ref::put_head(o, (unsigned)n.kind, n.bytes.size(), width_for(n.bytes.size(), n.width)); o.insert(o.end(), n.bytes.begin(), n.bytes.end()); break;
    case 4: ref::put_head(o, 4, n.kids.size(), width_for(n.kids.size(), n.width)); for (auto& k : n.kids) encode(k, o); break;
    case 5: ref::put_head(o, 5, n.kids.size() / 2, width_for(n.kids.size() / 2, n.width)); for (auto& k : n.kids) encode(k, o); break;
    case 6: ref::put_head(o, 6, n.value, width_for(n.value, n.width)); for (auto& k : n.kids) encode(k, o); break;
    case 7: o.push_back((uint8_t)(0xe0 | n.value)); break;
    case 8: ref::put_head(o, 7, n.value & 0xffff, 2); break;
    case 9: ref::put_head(o, 7, n.value, 4); break;
    case 10: ref::put_head(o, 7, n.value, 8); break;
    case 11: case 12: o.push_back(n.kind == 11 ? 0x5f : 0x7f); for (auto& k : n.kids) encode(k, o); o.push_back(0xff); break;
    case 13: o.push_back(0x9f); for (auto& k : n.kids) encode(k, o); o.push_back(0xff); break;
    default: o.push_back(0xbf); for (auto& k : n.kids) encode(k, o); o.push_back(0xff); break;
  }
}
Bytes gen_item_bytes(int maxdepth) { g_budget = pick<int>(1, 120); Bytes b; encode(gen_node(pick<int>(0, maxdepth)), b); return b; }
void mutate(Bytes& b) {
  int edits = pick<int>(0, 3);
  static const uint8_t special[] = {0xff, 0x1c, 0x5f, 0x7f, 0x9f, 0xbf, 0xf8, 0x00, 0x5b, 0x9b, 0xc0, 0xe0};
  for (int i = 0; i < edits && !b.empty(); i++) {
    size_t p = (size_t)pick<int>(0, (int)b.size() - 1);
    switch (pick<int>(0, 5)) {
      case 0: b[p] = *rc::gen::arbitrary<uint8_t>(); break;
      case 1: b[p] = special[pick<int>(0, 11)]; break;
      case 2: b.erase(b.begin() + (long)p); break;
      case 3: b.insert(b.begin() + (long)p, special[pick<int>(0, 11)]); break;
      case 4: b.resize(p); break;
      default: b[p] = (uint8_t)(b[p] + (pick<int>(0, 1) ? 1 : 0xff)); break;
    }
  }
}

Case gen_case(const std::string& g) {
  Case c;
  if (g == "ast") { c.campaign = "RC"; c.data = gen_item_bytes(6); mutate(c.data); }
  else if (g == "astok") { c.campaign = "RC"; c.data = gen_item_bytes(6); }
  else if (g == "deep") {   // long chains of openers around the nesting limit are left to the NEST campaign; here: moderately deep, wide
    c.campaign = "RC"; c.data = gen_item_bytes(12); mutate(c.data);
  } else if (g == "pair") {
    c.campaign = "PAIR"; c.data = gen_item_bytes(5); c.aux[0] = c.data.size();
    Bytes y = pick<int>(0, 2) == 0 ? gen_item_bytes(2) : *rc::gen::container<Bytes>(rc::gen::arbitrary<uint8_t>());
    c.data.insert(c.data.end(), y.begin(), y.end());
  } else if (g == "prog") {
    c.campaign = "PROG"; int n = pick<int>(1, 60); c.aux[0] = (uint64_t)pick<int>(0, 1);
    for (int i = 0; i < n; i++) { uint8_t b = *rc::gen::arbitrary<uint8_t>(); if (pick<int>(0, 2) == 0) b = (uint8_t)(14 + pick<int>(0, 8) + 24 * pick<int>(0, 9)); c.data.push_back(b); }
  } else if (g == "hist") {
    c.campaign = "HISTR"; int n = pick<int>(1, 120);
    static const int weights[] = {10, 3, 2, 3, 5, 8, 3, 8, 4, 5, 5, 5, 6, 4, 5, 3, 3, 3, 1, 1, 2, 2, 3, 2, 2, 4};
    std::vector<uint8_t> wheel; for (int o = 0; o < 26; o++) for (int k = 0; k < weights[o]; k++) wheel.push_back((uint8_t)o);
    for (int i = 0; i < n; i++) { c.data.push_back(wheel[(size_t)pick<int>(0, (int)wheel.size() - 1)]); for (int k = 0; k < 3; k++) c.data.push_back(*rc::gen::arbitrary<uint8_t>()); }
  } else if (g == "frag") {
    c.campaign = "FRAG"; int items = pick<int>(1, 5);
    for (int i = 0; i < items; i++) { Bytes b = gen_item_bytes(3); c.data.insert(c.data.end(), b.begin(), b.end()); }
    if (pick<int>(0, 2) == 0) mutate(c.data);
    if (c.data.size() > 190) c.data.resize(190);
    c.aux[0] = 3;
    for (size_t i = 0; i + 1 < c.data.size(); i++) if (pick<int>(0, 3) == 0) c.aux[1 + i / 64] |= 1ull << (i % 64);
  } else if (g == "head") {
    c.campaign = "HEAD"; Bytes b = gen_item_bytes(1); mutate(b); c.data = b;
  } else if (g == "utf8") {
    c.campaign = "UTF8"; c.data = *rc::gen::container<Bytes>(rc::gen::oneOf(rc::gen::inRange<uint8_t>(0x20, 0x7f), rc::gen::arbitrary<uint8_t>(), rc::gen::element<uint8_t>(0xc2, 0xe0, 0xed, 0xf0, 0xf4, 0x80, 0xbf, 0x9f, 0xa0, 0x90, 0x8f)));
  }
  return c;
}

}  // namespace

namespace rcg {

bool run(const std::string& gen, const Oracle& oracle, Case& minimal, uint64_t* generated) {
  Case last_fail; bool have = false; uint64_t n = 0;
  bool ok = rc::check("property holds for generated case (" + gen + ")", [&]() {
    Case c = gen_case(gen);
    n++;
    bool pass = oracle(c);
    if (!pass) { last_fail = c; have = true; }
    RC_ASSERT(pass);
  });
  if (generated) *generated = n;
  if (!ok && have) minimal = last_fail;
  return ok;
}

}  // namespace rcg
