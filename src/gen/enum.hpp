// Deterministic generators shared by the decode-side drivers.  No libcbor include.
//   E1  every byte string of length <= k
//   E2  grammar-directed enumeration of well-formed encodings with <= n nodes
//   E2p pairwise nesting: every (outer opener, slot, inner opener) completed with minimal leaves
//   E3  single-edit neighbours of an encoding
#pragma once
#include <cstdint>
#include <functional>
#include <string>
#include <vector>
#include "ref/refcbor.hpp"

namespace gen {
typedef std::vector<uint8_t> Bytes;

static inline Bytes B(std::initializer_list<int> l) { Bytes b; for (int x : l) b.push_back((uint8_t)x); return b; }
static inline Bytes cat(const Bytes& a, const Bytes& b) { Bytes r(a); r.insert(r.end(), b.begin(), b.end()); return r; }
static inline Bytes rep(int byte, size_t n) { return Bytes(n, (uint8_t)byte); }

// ---- leaf alphabet -------------------------------------------------------------------
static inline const std::vector<Bytes>& leaves_full() {
  static std::vector<Bytes> L;
  if (!L.empty()) return L;
  // unsigned / negative integers: every width, minimal and non-minimal, boundary values
  L.push_back(B({0x00})); L.push_back(B({0x17})); L.push_back(B({0x18, 0x18})); L.push_back(B({0x18, 0xff})); L.push_back(B({0x18, 0x00}));
  L.push_back(B({0x19, 0x01, 0x00})); L.push_back(B({0x19, 0xff, 0xff})); L.push_back(B({0x19, 0x00, 0x17}));
  L.push_back(B({0x1a, 0x00, 0x01, 0x00, 0x00})); L.push_back(B({0x1a, 0xff, 0xff, 0xff, 0xff}));
  L.push_back(B({0x1b, 0, 0, 0, 1, 0, 0, 0, 0})); L.push_back(B({0x1b, 0xff, 0xff, 0xff, 0xff, 0xff, 0xff, 0xff, 0xff}));
  L.push_back(B({0x20})); L.push_back(B({0x37})); L.push_back(B({0x38, 0xff})); L.push_back(B({0x39, 0xff, 0xff}));
  L.push_back(B({0x3a, 0x01, 0x02, 0x03, 0x04})); L.push_back(B({0x3b, 0x80, 0, 0, 0, 0, 0, 0, 1}));
  // byte strings
  L.push_back(B({0x40})); L.push_back(B({0x41, 0xab})); L.push_back(B({0x58, 0x00})); L.push_back(B({0x58, 0x01, 0xcd}));
  L.push_back(B({0x59, 0x00, 0x02, 0x01, 0x02})); L.push_back(B({0x5a, 0, 0, 0, 1, 0xff})); L.push_back(B({0x5b, 0, 0, 0, 0, 0, 0, 0, 0}));
  L.push_back(cat(B({0x57}), rep(0x42, 23))); L.push_back(cat(B({0x58, 24}), rep(0x43, 24)));
  // text strings (valid, multibyte, invalid UTF-8)
  L.push_back(B({0x63, 'a', 0x00, 'b'}));   // embedded NUL
  L.push_back(B({0x60})); L.push_back(B({0x61, 'a'})); L.push_back(B({0x62, 0xc3, 0xa9})); L.push_back(B({0x61, 0xff}));
  L.push_back(B({0x78, 0x00})); L.push_back(B({0x78, 0x02, 'h', 'i'})); L.push_back(B({0x79, 0x00, 0x01, 'z'}));
  L.push_back(B({0x7a, 0, 0, 0, 3, 0xe2, 0x82, 0xac})); L.push_back(B({0x7b, 0, 0, 0, 0, 0, 0, 0, 1, 'q'}));
  // simple values and floats
  L.push_back(B({0xf4})); L.push_back(B({0xf5})); L.push_back(B({0xf6})); L.push_back(B({0xf7}));
  L.push_back(B({0xf9, 0x00, 0x00})); L.push_back(B({0xf9, 0x7c, 0x00})); L.push_back(B({0xf9, 0x7e, 0x00})); L.push_back(B({0xf9, 0x00, 0x01})); L.push_back(B({0xf9, 0xc0, 0x00}));
  L.push_back(B({0xfa, 0x3f, 0x80, 0x00, 0x00})); L.push_back(B({0xfa, 0x7f, 0xc0, 0x00, 0x00})); L.push_back(B({0xfa, 0x7f, 0x80, 0x00, 0x01})); L.push_back(B({0xfa, 0x80, 0, 0, 0}));
  L.push_back(B({0xf9, 0x03, 0xff})); L.push_back(B({0xfa, 0x00, 0x00, 0x00, 0x01})); L.push_back(B({0xfa, 0x80, 0x7f, 0xff, 0xff})); L.push_back(B({0xfb, 0, 0, 0, 0, 0, 0, 0, 1}));   // subnormals of every width
  L.push_back(B({0xfb, 0x3f, 0xf0, 0, 0, 0, 0, 0, 0})); L.push_back(B({0xfb, 0x7f, 0xf8, 0, 0, 0, 0, 0, 0})); L.push_back(B({0xfb, 0xff, 0xf0, 0, 0, 0, 0, 0, 1}));
  // empty containers in every head width, empty indefinite containers
  L.push_back(B({0x80})); L.push_back(B({0x98, 0x00})); L.push_back(B({0x99, 0x00, 0x00})); L.push_back(B({0x9a, 0, 0, 0, 0})); L.push_back(B({0x9b, 0, 0, 0, 0, 0, 0, 0, 0}));
  L.push_back(B({0xa0})); L.push_back(B({0xb8, 0x00})); L.push_back(B({0xbb, 0, 0, 0, 0, 0, 0, 0, 0}));
  L.push_back(B({0x9f, 0xff})); L.push_back(B({0xbf, 0xff}));
  // chunked strings with 0 / 1 / 2 chunks, various chunk head widths
  L.push_back(B({0x5f, 0xff})); L.push_back(B({0x5f, 0x40, 0xff})); L.push_back(B({0x5f, 0x41, 0x01, 0xff})); L.push_back(B({0x5f, 0x41, 0x01, 0x40, 0xff}));
  L.push_back(B({0x5f, 0x58, 0x01, 0x02, 0x42, 0x03, 0x04, 0xff})); L.push_back(B({0x5f, 0x59, 0x00, 0x00, 0xff}));
  L.push_back(B({0x7f, 0xff})); L.push_back(B({0x7f, 0x60, 0xff})); L.push_back(B({0x7f, 0x61, 'a', 0xff})); L.push_back(B({0x7f, 0x61, 'a', 0x61, 'b', 0xff}));
  L.push_back(B({0x7f, 0x78, 0x01, 'c', 0x60, 0xff})); L.push_back(B({0x7f, 0x61, 0xc3, 0x61, 0xa9, 0xff}));  // a code point split across chunks
  return L;
}
static inline const std::vector<Bytes>& leaves_small() {
  static std::vector<Bytes> L;
  if (!L.empty()) return L;
  L = {B({0x00}), B({0x18, 0xff}), B({0x39, 0x01, 0x00}), B({0x41, 0xab}), B({0x60}), B({0x62, 0xc3, 0xa9}), B({0xf6}), B({0xf9, 0x3c, 0x00}),
       B({0x80}), B({0xa0}), B({0x9f, 0xff}), B({0x5f, 0x41, 0x01, 0xff}), B({0x7f, 0xff}), B({0x1b, 0xff, 0xff, 0xff, 0xff, 0xff, 0xff, 0xff, 0xff})};
  return L;
}

// ---- openers: prefix bytes, number of children, suffix bytes ----------------------------
struct Opener { Bytes pre; int kids; Bytes post; const char* name; };
static inline const std::vector<Opener>& openers() {
  static std::vector<Opener> O;
  if (!O.empty()) return O;
  Bytes none, brk = B({0xff});
  // one child
  O.push_back({B({0x81}), 1, none, "arr1"}); O.push_back({B({0x98, 0x01}), 1, none, "arr1w1"}); O.push_back({B({0x99, 0x00, 0x01}), 1, none, "arr1w2"});
  O.push_back({B({0x9a, 0, 0, 0, 1}), 1, none, "arr1w4"}); O.push_back({B({0x9b, 0, 0, 0, 0, 0, 0, 0, 1}), 1, none, "arr1w8"});
  O.push_back({B({0x9f}), 1, brk, "iarr1"});
  O.push_back({B({0xc0}), 1, none, "tag0"}); O.push_back({B({0xd7}), 1, none, "tag23"}); O.push_back({B({0xd8, 0x18}), 1, none, "tag24"});
  O.push_back({B({0xd8, 0xff}), 1, none, "tag255"}); O.push_back({B({0xd9, 0x01, 0x00}), 1, none, "tag256"}); O.push_back({B({0xda, 0x00, 0x01, 0x00, 0x00}), 1, none, "tag65536"});
  O.push_back({B({0xdb, 0xff, 0xff, 0xff, 0xff, 0xff, 0xff, 0xff, 0xff}), 1, none, "tagmax"}); O.push_back({B({0xd8, 0x05}), 1, none, "tag5nonmin"});
  // two children
  O.push_back({B({0x82}), 2, none, "arr2"}); O.push_back({B({0x98, 0x02}), 2, none, "arr2w1"}); O.push_back({B({0x9f}), 2, brk, "iarr2"});
  O.push_back({B({0xa1}), 2, none, "map1"}); O.push_back({B({0xb8, 0x01}), 2, none, "map1w1"}); O.push_back({B({0xb9, 0x00, 0x01}), 2, none, "map1w2"});
  O.push_back({B({0xba, 0, 0, 0, 1}), 2, none, "map1w4"}); O.push_back({B({0xbb, 0, 0, 0, 0, 0, 0, 0, 1}), 2, none, "map1w8"}); O.push_back({B({0xbf}), 2, brk, "imap1"});
  // three / four children
  O.push_back({B({0x83}), 3, none, "arr3"}); O.push_back({B({0x9f}), 3, brk, "iarr3"});
  O.push_back({B({0xa2}), 4, none, "map2"}); O.push_back({B({0xbf}), 4, brk, "imap2"});
  return O;
}

// Enumerate every encoding with at most `budget` nodes (an opener or a leaf is one node;
// leaves that are themselves small containers/chunked strings count as one).
// `emit` receives the bytes and the node count.  Returns the number emitted.
struct E2 {
  const std::vector<Bytes>& L;
  std::function<void(const Bytes&, int)> emit;
  uint64_t count = 0;
  bool stop = false;
  E2(const std::vector<Bytes>& leaves, std::function<void(const Bytes&, int)> e) : L(leaves), emit(e) {}
  // generate all items with exactly `n` nodes, calling k(bytes) for each
  void items(int n, Bytes& acc, const std::function<void()>& k) {
    if (stop) return;
    if (n == 1) {
      for (auto& l : L) { size_t m = acc.size(); acc.insert(acc.end(), l.begin(), l.end()); k(); acc.resize(m); if (stop) return; }
      return;
    }
    for (auto& op : openers()) {
      if (op.kids > n - 1) continue;
      size_t m = acc.size();
      acc.insert(acc.end(), op.pre.begin(), op.pre.end());
      seq(op.kids, n - 1, acc, [&]() { size_t m2 = acc.size(); acc.insert(acc.end(), op.post.begin(), op.post.end()); k(); acc.resize(m2); });
      acc.resize(m);
      if (stop) return;
    }
  }
  // k items using exactly n nodes in total
  void seq(int k_items, int n, Bytes& acc, const std::function<void()>& k) {
    if (k_items == 0) { if (n == 0) k(); return; }
    for (int first = 1; first <= n - (k_items - 1); first++)
      items(first, acc, [&]() { seq(k_items - 1, n - first, acc, k); });
  }
  void run(int max_nodes) {
    Bytes acc;
    for (int n = 1; n <= max_nodes && !stop; n++) items(n, acc, [&]() { count++; emit(acc, n); });
  }
};

// E2p: every ordered (outer opener, child slot, inner opener) with minimal leaves elsewhere.
static inline void pairwise(const std::function<void(const Bytes&)>& emit) {
  const Bytes leaf = B({0x01});
  for (auto& outer : openers())
    for (int slot = 0; slot < outer.kids; slot++)
      for (auto& inner : openers()) {
        Bytes in = inner.pre; for (int i = 0; i < inner.kids; i++) in.insert(in.end(), leaf.begin(), leaf.end()); in.insert(in.end(), inner.post.begin(), inner.post.end());
        Bytes x = outer.pre;
        for (int i = 0; i < outer.kids; i++) { const Bytes& c = (i == slot) ? in : leaf; x.insert(x.end(), c.begin(), c.end()); }
        x.insert(x.end(), outer.post.begin(), outer.post.end());
        emit(x);
        // and with a chunked string / empty containers innermost
        for (const Bytes& deep : {B({0x5f, 0x41, 0x00, 0xff}), B({0x7f, 0x60, 0x60, 0xff}), B({0xa0}), B({0x9f, 0xff})}) {
          Bytes in2 = inner.pre; for (int i = 0; i < inner.kids; i++) in2.insert(in2.end(), deep.begin(), deep.end()); in2.insert(in2.end(), inner.post.begin(), inner.post.end());
          Bytes y = outer.pre;
          for (int i = 0; i < outer.kids; i++) { const Bytes& c = (i == slot) ? in2 : leaf; y.insert(y.end(), c.begin(), c.end()); }
          y.insert(y.end(), outer.post.begin(), outer.post.end());
          emit(y);
        }
      }
}

// ---- WIDE: members / lengths around every head-width boundary, with the members really present ----
static inline void put_counted(Bytes& o, unsigned mt, uint64_t n, int forced = -1) { ref::put_head(o, mt, n, forced); }
static inline std::vector<Bytes> wide_items(bool big) {
  std::vector<Bytes> v;
  const size_t counts[] = {22, 23, 24, 25, 100, 255, 256, 257, 1000};
  for (size_t n : counts) {
    for (int forced : {-1, 2, 4}) {   // shortest head, and 2- / 4-byte count heads
      if (forced >= 0 && n > 300) continue;
      Bytes a; put_counted(a, 4, n, forced); for (size_t i = 0; i < n; i++) a.push_back((uint8_t)(i % 24)); v.push_back(a);
      Bytes m; put_counted(m, 5, n, forced); for (size_t i = 0; i < n; i++) { m.push_back((uint8_t)(i % 24)); m.push_back(0xf6); } v.push_back(m);
    }
    Bytes ia = B({0x9f}); for (size_t i = 0; i < n; i++) { ia.push_back(0x18); ia.push_back((uint8_t)i); } ia.push_back(0xff); v.push_back(ia);
    Bytes im = B({0xbf}); for (size_t i = 0; i < n; i++) { im.push_back(0x61); im.push_back((uint8_t)('a' + i % 26)); im.push_back(0x80); } im.push_back(0xff); v.push_back(im);
    Bytes ib = B({0x5f}); for (size_t i = 0; i < n; i++) { ib.push_back(0x41); ib.push_back((uint8_t)i); } ib.push_back(0xff); v.push_back(ib);
    Bytes it = B({0x7f}); for (size_t i = 0; i < n; i++) { it.push_back(0x61); it.push_back((uint8_t)('a' + i % 26)); } it.push_back(0xff); v.push_back(it);
  }
  std::vector<size_t> lens = {22, 23, 24, 25, 255, 256, 257, 1000};
  if (big) { lens.push_back(65535); lens.push_back(65536); }
  for (size_t n : lens) for (unsigned mt : {2u, 3u}) for (int forced : {-1, 4}) {
    if (forced >= 0 && n > 300) continue;
    Bytes s; put_counted(s, mt, n, forced); for (size_t i = 0; i < n; i++) s.push_back((uint8_t)(mt == 3 ? 'a' + i % 26 : i)); v.push_back(s);
    Bytes c = B({(uint8_t)(mt == 2 ? 0x5f : 0x7f)}); c.insert(c.end(), s.begin(), s.end()); c.insert(c.end(), s.begin(), s.end()); c.push_back(0xff); v.push_back(c);
    Bytes t = B({0xc1}); t.insert(t.end(), s.begin(), s.end()); v.push_back(t);
  }
  if (big) {   // counts at the 16-bit boundary with the members really present (need an allocator cap above 1 MiB)
    for (size_t n : {(size_t)65535, (size_t)65536, (size_t)70000}) {
      Bytes a; put_counted(a, 4, n); a.insert(a.end(), n, (uint8_t)0x01); v.push_back(a);
      Bytes m; put_counted(m, 5, n); for (size_t i = 0; i < n; i++) { m.push_back((uint8_t)(i % 24)); m.push_back(0xf4); } v.push_back(m);
    }
    Bytes ia = B({0x9f}); ia.insert(ia.end(), 66000, (uint8_t)0x02); ia.push_back(0xff); v.push_back(ia);
  }
  // nested wide: 30 arrays of 30, a map whose values are 24-element arrays
  { Bytes a; put_counted(a, 4, 30); for (int i = 0; i < 30; i++) { put_counted(a, 4, 30); for (int j = 0; j < 30; j++) a.push_back((uint8_t)j % 24); } v.push_back(a); }
  { Bytes m; put_counted(m, 5, 24); for (int i = 0; i < 24; i++) { m.push_back((uint8_t)i); put_counted(m, 4, 24); for (int j = 0; j < 24; j++) m.push_back(0xf5); } v.push_back(m); }
  return v;
}

// ---- E3: single-edit neighbours ---------------------------------------------------------
// Bytes used to overwrite a head's initial byte: every reserved / unsupported class and one
// representative of every other kind.
static inline const std::vector<uint8_t>& overwrite_bytes() {
  static std::vector<uint8_t> v = {0x1c, 0x1f, 0x3c, 0x3f, 0x5c, 0x5e, 0x7c, 0x7e, 0x9c, 0x9e, 0xbc, 0xbe, 0xdc, 0xdf, 0xe0, 0xf3, 0xf8, 0xfc, 0xfe,
                                    0x00, 0x18, 0x20, 0x40, 0x41, 0x5f, 0x60, 0x61, 0x7f, 0x80, 0x81, 0x9f, 0xa0, 0xa1, 0xbf, 0xc1, 0xf4, 0xf7, 0xf9, 0xff};
  return v;
}

enum EditKind { ED_TRUNC, ED_OVERWRITE, ED_INSERT_BREAK, ED_DELETE_BREAK, ED_ARG_PLUS, ED_ARG_MINUS, ED_ARG_WIDEN, ED_ARG_HUGE, ED_SWAP_MT, ED_DUP_ITEM, ED_DEL_HEAD, ED_APPEND };
static inline const char* edit_name(int k) {
  static const char* n[] = {"trunc", "overwrite", "insert_break", "delete_break", "arg+1", "arg-1", "arg_widen", "arg_huge", "swap_mt", "dup_head", "del_head", "append"};
  return n[k];
}

// calls emit(neighbour, editkind) for every single-edit neighbour of x
static inline void neighbours(const Bytes& x, const std::function<void(const Bytes&, int)>& emit) {
  ref::TokStream t = ref::tokenise(x.data(), x.size());
  // truncation at every offset (offset 0 = empty input)
  for (size_t k = 0; k < x.size(); k++) emit(Bytes(x.begin(), x.begin() + (long)k), ED_TRUNC);
  for (auto& h : t.heads) {
    // overwrite the initial byte
    for (uint8_t ob : overwrite_bytes()) { if (ob == h.ib) continue; Bytes y(x); y[h.off] = ob; emit(y, ED_OVERWRITE); }
    // insert a break in front of this head
    { Bytes y(x); y.insert(y.begin() + (long)h.off, 0xff); emit(y, ED_INSERT_BREAK); }
    if (h.kind == ref::K_BREAK) { Bytes y(x); y.erase(y.begin() + (long)h.off); emit(y, ED_DELETE_BREAK); }
    // delete the whole head (and payload)
    { Bytes y(x); y.erase(y.begin() + (long)h.off, y.begin() + (long)(h.off + (size_t)h.total)); emit(y, ED_DEL_HEAD); }
    // duplicate the head (and payload)
    { Bytes y(x); y.insert(y.begin() + (long)h.off, x.begin() + (long)h.off, x.begin() + (long)(h.off + (size_t)h.total)); emit(y, ED_DUP_ITEM); }
    bool counted = h.kind == ref::K_BSTR || h.kind == ref::K_TSTR || h.kind == ref::K_ARR || h.kind == ref::K_MAP;
    if (counted) {
      // inflate / deflate the declared length or count by one within the same head width
      auto set_arg = [&](uint64_t v) {
        Bytes y(x);
        if (h.argw == 0) { if (v > 23) return false; y[h.off] = (uint8_t)((h.ib & 0xe0) | v); }
        else { if (h.argw < 8 && (v >> (8 * h.argw))) return false; for (int i = 0; i < h.argw; i++) y[h.off + 1 + (size_t)i] = (uint8_t)(v >> (8 * (h.argw - 1 - i))); }
        emit(y, v > h.arg ? ED_ARG_PLUS : ED_ARG_MINUS);
        return true;
      };
      set_arg(h.arg + 1);
      if (h.arg > 0) set_arg(h.arg - 1);
      // same value in the next wider head
      if (h.argw < 8) {
        int nw = h.argw == 0 ? 1 : h.argw * 2;
        Bytes y(x.begin(), x.begin() + (long)h.off);
        ref::put_head(y, (unsigned)(h.ib >> 5), h.arg, nw);
        y.insert(y.end(), x.begin() + (long)(h.off + h.hlen), x.end());
        emit(y, ED_ARG_WIDEN);
      }
      // a huge declared length / count in an 8-byte head
      for (uint64_t huge : {(uint64_t)1 << 32, (uint64_t)1 << 61, ~(uint64_t)0}) {
        Bytes y(x.begin(), x.begin() + (long)h.off);
        ref::put_head(y, (unsigned)(h.ib >> 5), huge, 8);
        y.insert(y.end(), x.begin() + (long)(h.off + h.hlen), x.end());
        emit(y, ED_ARG_HUGE);
      }
    }
    // swap the major type between byte string <-> text string, array <-> map
    if (h.kind == ref::K_BSTR || h.kind == ref::K_TSTR || h.kind == ref::K_BSTR_INDEF || h.kind == ref::K_TSTR_INDEF) { Bytes y(x); y[h.off] ^= 0x20; emit(y, ED_SWAP_MT); }
    if (h.kind == ref::K_ARR || h.kind == ref::K_MAP || h.kind == ref::K_ARR_INDEF || h.kind == ref::K_MAP_INDEF) { Bytes y(x); y[h.off] ^= 0x20; emit(y, ED_SWAP_MT); }
  }
  // append one byte of each interesting class
  for (uint8_t ob : {0x00, 0xff, 0x1c, 0x5f, 0x81}) { Bytes y(x); y.push_back(ob); emit(y, ED_APPEND); }
}

}  // namespace gen
