// Arena allocator with no libc backing (C13, C18).
// A bump allocator inside one mmap'ed region.  Every block has a 32-byte header (magic, size,
// serial, state).  free() marks the block dead (never reused, so a double release or a stale
// pointer is always recognisable); realloc() always moves.  No libc heap function is called
// from here, so that with the ASan malloc/free hooks armed *any* libc heap traffic observed
// during a libcbor call is a bypass of the configured allocator.
// The region can be write-protected (C18) and allocation switched to a second arena.
#pragma once
#include <cstddef>
#include <cstdint>
#include <cstring>
#include <sys/mman.h>

#if defined(__has_feature)
#if __has_feature(address_sanitizer)
#define AR_ASAN 1
extern "C" int __sanitizer_install_malloc_and_free_hooks(void (*malloc_hook)(const volatile void*, size_t), void (*free_hook)(const volatile void*));
#endif
#endif

namespace ar {

struct Hdr { uint64_t magic; uint64_t size; uint64_t serial; uint64_t state; };  // state 1 live, 2 dead
static const uint64_t MAGIC = 0x4152454E41424C4BULL;

struct Arena {
  uint8_t* base = nullptr; size_t cap = 0, used = 0;
  bool init(size_t bytes) {
    void* p = mmap(nullptr, bytes, PROT_READ | PROT_WRITE, MAP_PRIVATE | MAP_ANONYMOUS, -1, 0);
    if (p == MAP_FAILED) return false;
    base = (uint8_t*)p; cap = bytes; used = 0; return true;
  }
  void reset() { used = 0; }
  bool contains(const void* p) const { return (const uint8_t*)p >= base && (const uint8_t*)p < base + cap; }
  bool protect(bool readonly) { return mprotect(base, cap, readonly ? PROT_READ : (PROT_READ | PROT_WRITE)) == 0; }
};

struct State {
  Arena a[2]; int cur = 0;
  uint64_t requests = 0, mallocs = 0, reallocs = 0, frees = 0, serial = 0;
  uint64_t live_blocks = 0;
  uint64_t foreign = 0, double_free = 0, exhausted = 0;
  size_t single_cap = (size_t)1 << 24;
  int64_t fail_at = -1;            // refuse request number k (counted from the last reset_counters)
  uint64_t refused_fault = 0;
  // libc-bypass detection
  uint64_t libc_mallocs_in_lib = 0, libc_frees_in_lib = 0;
};
static State g;
// >0 while the *current thread* is inside a libcbor call (other harness threads may use the libc heap freely)
static thread_local int tl_in_lib = 0;

static inline void* raw_alloc(size_t n) {
  if (n > g.single_cap) return nullptr;
  Arena& A = g.a[g.cur];
  size_t need = sizeof(Hdr) + ((n + 15) & ~(size_t)15) + 16;   // 16 spare bytes so that size-0 blocks are distinct
  if (A.used + need > A.cap) { g.exhausted++; return nullptr; }
  Hdr* h = (Hdr*)(A.base + A.used); A.used += need;
  h->magic = MAGIC; h->size = n; h->serial = ++g.serial; h->state = 1;
  g.live_blocks++;
  return (uint8_t*)h + sizeof(Hdr);
}
static inline bool known(void* p, Hdr** out) {
  if (!g.a[0].contains(p) && !g.a[1].contains(p)) return false;
  Hdr* h = (Hdr*)((uint8_t*)p - sizeof(Hdr));
  if (!g.a[0].contains(h) && !g.a[1].contains(h)) return false;
  if (h->magic != MAGIC) return false;
  *out = h; return true;
}
static inline bool raw_free(void* p) {
  Hdr* h;
  if (!known(p, &h)) { g.foreign++; return false; }
  if (h->state != 1) { g.double_free++; return false; }
  h->state = 2; g.live_blocks--;
  memset(p, 0xDD, h->size);
  return true;
}
static inline bool faulted() { if (g.fail_at >= 0 && (uint64_t)g.fail_at == g.requests) { g.refused_fault++; return true; } return false; }
static inline void* amalloc(size_t n) { bool f = faulted(); g.requests++; g.mallocs++; return f ? nullptr : raw_alloc(n); }
static inline void afree(void* p) { g.frees++; if (p) raw_free(p); }
static inline void* arealloc(void* p, size_t n) {
  bool f = faulted();
  g.requests++; g.reallocs++;
  if (f) return nullptr;
  if (!p) return raw_alloc(n);
  Hdr* h;
  if (!known(p, &h)) { g.foreign++; return nullptr; }
  if (h->state != 1) { g.double_free++; return nullptr; }
  void* q = raw_alloc(n);
  if (!q) return nullptr;
  memcpy(q, p, h->size < n ? h->size : n);
  raw_free(p);
  return q;
}
static inline void reset_counters() {
  g.requests = g.mallocs = g.reallocs = g.frees = 0; g.foreign = g.double_free = g.exhausted = 0; g.refused_fault = 0; g.fail_at = -1;
  g.libc_mallocs_in_lib = g.libc_frees_in_lib = 0;
}
// Forget everything (between cases).
static inline void reset_all() { g.a[0].reset(); g.a[1].reset(); g.cur = 0; g.live_blocks = 0; reset_counters(); }

#ifdef AR_ASAN
static void hook_malloc(const volatile void*, size_t) { if (tl_in_lib > 0) g.libc_mallocs_in_lib++; }
static void hook_free(const volatile void*) { if (tl_in_lib > 0) g.libc_frees_in_lib++; }
static inline bool install_hooks() { return __sanitizer_install_malloc_and_free_hooks(hook_malloc, hook_free) != 0; }
#else
static inline bool install_hooks() { return false; }
#endif

struct InLib { InLib() { tl_in_lib++; } ~InLib() { tl_in_lib--; } };

}  // namespace ar
