// Instrumenting allocator installed with cbor_set_allocs.
// Every block carries a hidden 48-byte header in front (magic, size, serial, live-list
// links).  With ASan the header is poisoned while the block is in client hands, so
//   * a block that did not come from this allocator and is handed to vfree/vrealloc is
//     caught by the magic check (foreign pointer),
//   * a block released twice is caught by the DEAD magic / ASan use-after-free,
//   * a header-carrying block handed to libc free() is an ASan bad-free (interior pointer).
// realloc always moves (allocate-copy-release) so stale pointers into an old slot array or
// chunk table become use-after-free.  Size-0 requests get a distinct non-NULL block.
#pragma once
#include <cstddef>
#include <cstdint>
#include <vector>

namespace va {

struct Hdr {
  uint64_t magic;
  size_t size;
  uint64_t serial;
  Hdr* prev;
  Hdr* next;
  uint64_t origin;  // 0 malloc, 1 realloc
};
static const uint64_t MAGIC_LIVE = 0x56414C4C4F434C56ULL;
static const uint64_t MAGIC_DEAD = 0xDEADDEADDEADDEADULL;
static const size_t HDR = 48;

struct State {
  // configuration
  size_t single_cap = (size_t)1 << 20;   // refuse any single request above this
  size_t total_cap = (size_t)1 << 30;    // refuse when live bytes would exceed this
  int64_t fail_at = -1;                  // refuse request number k only
  int64_t fail_from = -1;                // refuse every request numbered >= k
  bool locked = false;                   // take a mutex (C17)
  // counters
  uint64_t requests = 0;                 // malloc + realloc calls (the fault index)
  uint64_t mallocs = 0, reallocs = 0, frees = 0;
  uint64_t refused_single = 0, refused_total = 0, refused_fault = 0;
  uint64_t serial = 0;
  size_t live_blocks = 0, live_bytes = 0;
  size_t max_request = 0;                // largest size ever requested
  // error flags set by the allocator itself (never aborts on its own)
  uint64_t foreign_free = 0, double_free = 0;
  Hdr* head = nullptr;
  Hdr* tail = nullptr;
  // request log (optional)
  bool log_sizes = false;
  std::vector<size_t> size_log;          // every requested size
  std::vector<size_t> granted_log;       // sizes actually granted
  bool index_blocks = false;             // keep an address index of live blocks (for serial_containing)
  bool log_frees = false;
  std::vector<uint64_t> freed_serials;   // serial of every block released (when log_frees)
};
extern State g;

void* vmalloc(size_t n);
void* vrealloc(void* p, size_t n);
void vfree(void* p);

void reset_counters();            // zero counters, keep live list and configuration caps
void reset_faults();              // fail_at = fail_from = -1
// live-set inspection
struct BlockInfo { void* ptr; size_t size; uint64_t serial; };
std::vector<BlockInfo> live();
// serial of the live block whose user pointer is p, or 0 if p is not a live block
uint64_t serial_of(const void* p);
size_t size_of(const void* p);
// serial of the live block whose user range [ptr, ptr+size) contains p (p need not be the start of the block:
// nothing in the public API says an item pointer is one), or 0.  Needs g.index_blocks set before the blocks
// of interest are allocated; O(log live blocks).
uint64_t serial_containing(const void* p);
// FNV hash over (ptr, size, bytes) of every live block, in allocation order
uint64_t image_hash();
// byte snapshot of all live blocks (for before/after comparison)
struct Snapshot { std::vector<BlockInfo> blocks; std::vector<std::vector<uint8_t>> bytes; };
Snapshot snapshot();
// compares the blocks of s with the current state: every block of s still live at the same
// address with the same size, serial and bytes, and no additional live block.
bool same_as(const Snapshot& s, const char** why);
// release every live block (used between cases after a detected leak so cases stay independent)
size_t release_all();

}  // namespace va
