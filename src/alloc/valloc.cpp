#include "valloc.hpp"
#include <cstdlib>
#include <cstring>
#include <mutex>
#include <map>

#if defined(__has_feature)
#if __has_feature(address_sanitizer)
#define VA_ASAN 1
#endif
#endif
#ifdef VA_ASAN
#include <sanitizer/asan_interface.h>
#define POISON(p, n) __asan_poison_memory_region((p), (n))
#define UNPOISON(p, n) __asan_unpoison_memory_region((p), (n))
#else
#define POISON(p, n) ((void)0)
#define UNPOISON(p, n) ((void)0)
#endif

namespace va {

State g;
static std::mutex mu;
static std::map<const uint8_t*, std::pair<size_t, uint64_t>> g_index;   // user pointer -> (size, serial)

struct Guard {
  bool on;
  Guard() : on(g.locked) { if (on) mu.lock(); }
  ~Guard() { if (on) mu.unlock(); }
};

static inline Hdr* hdr_of(void* user) { return (Hdr*)((uint8_t*)user - HDR); }
static inline void* user_of(Hdr* h) { return (uint8_t*)h + HDR; }

static void link(Hdr* h) {  // h unpoisoned by the caller
  h->next = nullptr; h->prev = g.tail;
  if (g.tail) { UNPOISON(g.tail, HDR); g.tail->next = h; POISON(g.tail, HDR); } else g.head = h;
  g.tail = h;
}
static void unlink(Hdr* h) {  // h unpoisoned by the caller
  Hdr* p = h->prev; Hdr* n = h->next;
  if (p) { UNPOISON(p, HDR); p->next = n; POISON(p, HDR); } else g.head = n;
  if (n) { UNPOISON(n, HDR); n->prev = p; POISON(n, HDR); } else g.tail = p;
}

static void* alloc_block(size_t n, uint64_t origin) {
  uint64_t idx = g.requests++;
  if (g.log_sizes) g.size_log.push_back(n);
  if (n > g.max_request) g.max_request = n;
  if ((g.fail_at >= 0 && (uint64_t)g.fail_at == idx) || (g.fail_from >= 0 && idx >= (uint64_t)g.fail_from)) {
    g.refused_fault++;
    return nullptr;
  }
  if (n > g.single_cap) { g.refused_single++; return nullptr; }
  if (g.live_bytes + n > g.total_cap) { g.refused_total++; return nullptr; }
  Hdr* h = (Hdr*)malloc(HDR + n);  // n == 0 still yields a distinct block
  if (!h) { g.refused_total++; return nullptr; }
  h->magic = MAGIC_LIVE; h->size = n; h->serial = ++g.serial; h->origin = origin;
  link(h);
  if (g.index_blocks) g_index[(const uint8_t*)user_of(h)] = {n, h->serial};
  g.live_blocks++; g.live_bytes += n;
  if (g.log_sizes) g.granted_log.push_back(n);
  POISON(h, HDR);
  return user_of(h);
}

void* vmalloc(size_t n) {
  Guard gd;
  g.mallocs++;
  return alloc_block(n, 0);
}

static bool release_block(void* p) {
  Hdr* h = hdr_of(p);
  UNPOISON(h, HDR);
  if (h->magic == MAGIC_DEAD) { g.double_free++; return false; }
  if (h->magic != MAGIC_LIVE) { g.foreign_free++; return false; }
  unlink(h);
  if (g.index_blocks) g_index.erase((const uint8_t*)user_of(h));
  h->magic = MAGIC_DEAD;
  if (g.log_frees) g.freed_serials.push_back(h->serial);
  g.live_blocks--; g.live_bytes -= h->size;
  // scribble so stale reads of released storage are visible even without ASan
  memset(user_of(h), 0xDD, h->size);
  free(h);
  return true;
}

void vfree(void* p) {
  Guard gd;
  g.frees++;
  if (!p) return;
  release_block(p);
}

void* vrealloc(void* p, size_t n) {
  Guard gd;
  g.reallocs++;
  if (!p) return alloc_block(n, 1);
  Hdr* h = hdr_of(p);
  UNPOISON(h, HDR);
  if (h->magic != MAGIC_LIVE) {
    if (h->magic == MAGIC_DEAD) g.double_free++; else g.foreign_free++;
    return nullptr;
  }
  size_t old = h->size;
  POISON(h, HDR);
  void* q = alloc_block(n, 1);
  if (!q) return nullptr;  // like realloc: the old block stays valid
  memcpy(q, p, old < n ? old : n);
  release_block(p);
  return q;
}

void reset_counters() {
  g.requests = g.mallocs = g.reallocs = g.frees = 0;
  g.refused_single = g.refused_total = g.refused_fault = 0;
  g.max_request = 0;
  g.foreign_free = g.double_free = 0;
  g.size_log.clear(); g.granted_log.clear(); g.freed_serials.clear();
}
void reset_faults() { g.fail_at = -1; g.fail_from = -1; }

std::vector<BlockInfo> live() {
  std::vector<BlockInfo> v;
  for (Hdr* h = g.head; h;) {
    UNPOISON(h, HDR);
    Hdr* n = h->next;
    v.push_back({user_of(h), h->size, h->serial});
    POISON(h, HDR);
    h = n;
  }
  return v;
}

uint64_t serial_of(const void* p) {
  for (Hdr* h = g.head; h;) {
    UNPOISON(h, HDR);
    Hdr* n = h->next; uint64_t s = h->serial; bool hit = user_of(h) == p;
    POISON(h, HDR);
    if (hit) return s;
    h = n;
  }
  return 0;
}
size_t size_of(const void* p) {
  for (Hdr* h = g.head; h;) {
    UNPOISON(h, HDR);
    Hdr* n = h->next; size_t s = h->size; bool hit = user_of(h) == p;
    POISON(h, HDR);
    if (hit) return s;
    h = n;
  }
  return (size_t)-1;
}

uint64_t serial_containing(const void* p) {
  auto it = g_index.upper_bound((const uint8_t*)p);
  if (it == g_index.begin()) return 0;
  --it;
  size_t sz = it->second.first;
  if ((const uint8_t*)p < it->first + (sz ? sz : 1)) return it->second.second;
  return 0;
}

uint64_t image_hash() {
  uint64_t hsh = 1469598103934665603ULL;
  auto mix = [&](const void* p, size_t n) { const uint8_t* b = (const uint8_t*)p; for (size_t i = 0; i < n; i++) { hsh ^= b[i]; hsh *= 1099511628211ULL; } };
  for (auto& b : live()) { mix(&b.ptr, sizeof b.ptr); mix(&b.size, sizeof b.size); mix(b.ptr, b.size); }
  return hsh;
}

Snapshot snapshot() {
  Snapshot s; s.blocks = live();
  for (auto& b : s.blocks) s.bytes.emplace_back((uint8_t*)b.ptr, (uint8_t*)b.ptr + b.size);
  return s;
}

bool same_as(const Snapshot& s, const char** why) {
  std::vector<BlockInfo> now = live();
  if (now.size() != s.blocks.size()) { *why = now.size() > s.blocks.size() ? "additional live block(s) after the call (leak)" : "a block that was live before the call was released"; return false; }
  for (size_t i = 0; i < now.size(); i++) {
    if (now[i].ptr != s.blocks[i].ptr || now[i].serial != s.blocks[i].serial) { *why = "live-block set changed (a prior block was released or replaced)"; return false; }
    if (now[i].size != s.blocks[i].size) { *why = "size of a prior block changed"; return false; }
    if (now[i].size && memcmp(now[i].ptr, s.bytes[i].data(), now[i].size) != 0) { *why = "byte image of a block that was live before the call changed"; return false; }
  }
  return true;
}

size_t release_all() {
  size_t n = 0;
  while (g.head) {
    Hdr* h = g.head;
    release_block(user_of(h));
    n++;
  }
  return n;
}

}  // namespace va
