// libFuzzer target: the oracles of drv_stream with coverage-guided byte input
#define VH_FUZZ_TARGET
#include "../drv/drv_stream.cpp"
#include "fuzz/fuzz_main.hpp"
