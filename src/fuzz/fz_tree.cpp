// libFuzzer target: the oracles of drv_tree with coverage-guided byte input
#define VH_FUZZ_TARGET
#include "../drv/drv_tree.cpp"
#include "fuzz/fuzz_main.hpp"
