// libFuzzer target: the oracles of drv_hist with coverage-guided byte input
#define VH_FUZZ_TARGET
#include "../drv/drv_hist.cpp"
#include "fuzz/fuzz_main.hpp"
