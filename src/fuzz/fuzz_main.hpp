// libFuzzer entry points around a driver's run_case.  The semantic oracle of the property named
// by $VERIF_PROP runs inside the target; an oracle failure writes a replay case and traps.
// Counters are flushed by atexit and before trapping (a trap skips atexit).
#pragma once
#include <cstdio>
#include <cstdlib>
#include <string>
#include <unordered_set>

static std::string fz_prop, fz_work, fz_tag, fz_replays;
static uint64_t fz_evals, fz_skipped, fz_nt;
static std::unordered_set<uint64_t> fz_hashes;
static std::vector<std::string> fz_samples;

static void fz_flush() {
  if (fz_work.empty()) return;
  std::string p = fz_work + "/fzstats-" + fz_tag + ".json";
  FILE* f = fopen(p.c_str(), "w");
  if (!f) return;
  fprintf(f, "{\"evaluations\": %llu, \"skipped\": %llu, \"nontrivial_hashed\": %llu, \"samples\": [", (unsigned long long)fz_evals, (unsigned long long)fz_skipped, (unsigned long long)fz_hashes.size());
  for (size_t i = 0; i < fz_samples.size(); i++) fprintf(f, "%s\"%s\"", i ? ", " : "", fz_samples[i].c_str());
  fprintf(f, "]}\n"); fclose(f);
  std::vector<uint64_t> v(fz_hashes.begin(), fz_hashes.end()); std::sort(v.begin(), v.end());
  std::string hp = fz_work + "/hash-" + fz_tag + ".bin";
  FILE* h = fopen(hp.c_str(), "wb"); if (h) { fwrite(v.data(), 8, v.size(), h); fclose(h); }
}

extern "C" int LLVMFuzzerInitialize(int*, char***) {
  driver_init();
  const char* e;
  fz_prop = (e = getenv("VERIF_PROP")) ? e : "";
  fz_work = (e = getenv("VERIF_WORK")) ? e : "";
  fz_tag = (e = getenv("VERIF_TAG")) ? e : "0";
  fz_replays = (e = getenv("VERIF_REPLAYS")) ? e : "replays";
  if (fz_prop.empty()) { fprintf(stderr, "VERIF_PROP not set\n"); exit(2); }
  atexit(fz_flush);
  return 0;
}

extern "C" int LLVMFuzzerTestOneInput(const uint8_t* data, size_t size) {
  vh::Case c; c.campaign = "FUZZ"; c.data.assign(data, data + size);
  vh::Result r = run_case(fz_prop, c);
  fz_evals++;
  if (r.skipped) { fz_skipped++; return 0; }
  if (r.nontrivial && r.ok) {
    size_t before = fz_hashes.size();
    if (fz_hashes.size() < (1u << 21)) fz_hashes.insert(vh::case_hash(c));
    if (fz_hashes.size() != before && fz_samples.size() < 6 && (fz_hashes.size() == 1 || fz_hashes.size() == 500 || fz_hashes.size() == 20000)) fz_samples.push_back("FUZZ data=" + vh::hex(c.data).substr(0, 200));
  }
  if (!r.ok) {
    char name[64]; snprintf(name, sizeof name, "%016llx", (unsigned long long)vh::case_hash(c));
    std::string path = fz_replays + "/" + fz_prop + "-fuzz-" + name + ".case";
    vh::write_case_file(path, fz_prop, kDriverName, c, r.msg);
    fprintf(stderr, "ORACLE-FAIL %s case=%s :: %s\n", fz_prop.c_str(), path.c_str(), r.msg.c_str());
    fz_flush();
    __builtin_trap();
  }
  return 0;
}
