// libFuzzer target: the fault-schedule oracle of drv_fault on fuzzer-chosen (scenario, k, mode, input)
#define VH_FUZZ_TARGET
#include "../drv/drv_fault.cpp"
#include "fuzz/fuzz_main.hpp"
