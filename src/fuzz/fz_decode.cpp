// libFuzzer target: the oracles of drv_decode with coverage-guided byte input
#define VH_FUZZ_TARGET
#include "../drv/drv_decode.cpp"
#include "fuzz/fuzz_main.hpp"
