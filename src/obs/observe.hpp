// Observation layer: walk a libcbor tree through the PUBLIC API only and produce the
// reference AST plus, per node, its address / refcount / buffer ranges.
#pragma once
#include <cstring>
#include <vector>
#include "cbor.h"
#include "ref/refcbor.hpp"

namespace obs {

struct NodeInfo {
  const cbor_item_t* item;
  size_t refcount;
  int type;
  const void* buf;   // string payload / slot array / chunk table, or nullptr
  size_t buflen;     // bytes
  size_t depth;
};

struct Observation {
  ref::Node ast;
  std::vector<NodeInfo> nodes;   // pre-order
  size_t max_depth = 0;
  std::string problem;           // non-empty if a structural invariant visible through getters is violated
};

static inline uint32_t f2u(float f) { uint32_t u; memcpy(&u, &f, 4); return u; }
static inline uint64_t d2u(double d) { uint64_t u; memcpy(&u, &d, 8); return u; }

// half items store a float: convert to the half bit pattern for the AST when exactly
// representable; otherwise keep a marker (width 1, value = 0x10000 | single bits) so that it
// can never compare equal to a model half.
static inline void observe_into(const cbor_item_t* it, ref::Node& n, Observation& o, size_t depth) {
  if (depth > o.max_depth) o.max_depth = depth;
  NodeInfo ni{it, cbor_refcount(it), (int)cbor_typeof(it), nullptr, 0, depth};
  size_t my = o.nodes.size();
  o.nodes.push_back(ni);
  switch (cbor_typeof(it)) {
    case CBOR_TYPE_UINT: case CBOR_TYPE_NEGINT: {
      n.type = cbor_typeof(it) == CBOR_TYPE_UINT ? 0 : 1;
      switch (cbor_int_get_width(it)) {
        case CBOR_INT_8: n.width = 0; n.value = cbor_get_uint8(it); break;
        case CBOR_INT_16: n.width = 1; n.value = cbor_get_uint16(it); break;
        case CBOR_INT_32: n.width = 2; n.value = cbor_get_uint32(it); break;
        case CBOR_INT_64: n.width = 3; n.value = cbor_get_uint64(it); break;
        default: o.problem = "integer width outside enum"; break;
      }
      if (cbor_get_int(it) != n.value) o.problem = "cbor_get_int disagrees with the width-specific getter";
      break;
    }
    case CBOR_TYPE_BYTESTRING:
      n.type = 2;
      if (cbor_bytestring_is_definite(it)) {
        if (cbor_bytestring_is_indefinite(it)) o.problem = "bytestring both definite and indefinite";
        size_t len = cbor_bytestring_length(it);
        const unsigned char* h = cbor_bytestring_handle(it);
        if (len && !h) { o.problem = "definite bytestring with length but NULL handle"; break; }
        if (len) n.bytes.assign(h, h + len);
        o.nodes[my].buf = h; o.nodes[my].buflen = len;
      } else {
        n.indef = true;
        size_t cc = cbor_bytestring_chunk_count(it);
        cbor_item_t** ch = cbor_bytestring_chunks_handle(it);
        o.nodes[my].buf = ch; o.nodes[my].buflen = cc * sizeof(cbor_item_t*);
        n.kids.resize(cc);
        for (size_t i = 0; i < cc; i++) {
          if (!ch[i]) { o.problem = "NULL chunk"; return; }
          observe_into(ch[i], n.kids[i], o, depth + 1);
          if (!(cbor_isa_bytestring(ch[i]) && cbor_bytestring_is_definite(ch[i]))) o.problem = "chunk of an indefinite bytestring is not a definite bytestring";
        }
      }
      break;
    case CBOR_TYPE_STRING:
      n.type = 3;
      if (cbor_string_is_definite(it)) {
        size_t len = cbor_string_length(it);
        const unsigned char* h = cbor_string_handle(it);
        if (len && !h) { o.problem = "definite string with length but NULL handle"; break; }
        if (len) n.bytes.assign(h, h + len);
        o.nodes[my].buf = h; o.nodes[my].buflen = len;
      } else {
        n.indef = true;
        size_t cc = cbor_string_chunk_count(it);
        cbor_item_t** ch = cbor_string_chunks_handle(it);
        o.nodes[my].buf = ch; o.nodes[my].buflen = cc * sizeof(cbor_item_t*);
        n.kids.resize(cc);
        for (size_t i = 0; i < cc; i++) {
          if (!ch[i]) { o.problem = "NULL chunk"; return; }
          observe_into(ch[i], n.kids[i], o, depth + 1);
          if (!(cbor_isa_string(ch[i]) && cbor_string_is_definite(ch[i]))) o.problem = "chunk of an indefinite string is not a definite string";
        }
      }
      break;
    case CBOR_TYPE_ARRAY: {
      n.type = 4; n.indef = cbor_array_is_indefinite(it);
      if (n.indef == cbor_array_is_definite(it)) o.problem = "array definite/indefinite predicates inconsistent";
      size_t sz = cbor_array_size(it);
      if (sz > cbor_array_allocated(it)) o.problem = "array size exceeds allocated";
      cbor_item_t** h = cbor_array_handle(it);
      o.nodes[my].buf = h; o.nodes[my].buflen = sz * sizeof(cbor_item_t*);
      n.kids.resize(sz);
      for (size_t i = 0; i < sz; i++) {
        if (!h[i]) { o.problem = "NULL array member below size"; return; }
        observe_into(h[i], n.kids[i], o, depth + 1);
      }
      break;
    }
    case CBOR_TYPE_MAP: {
      n.type = 5; n.indef = cbor_map_is_indefinite(it);
      if (n.indef == cbor_map_is_definite(it)) o.problem = "map definite/indefinite predicates inconsistent";
      size_t sz = cbor_map_size(it);
      if (sz > cbor_map_allocated(it)) o.problem = "map size exceeds allocated";
      struct cbor_pair* h = cbor_map_handle(it);
      o.nodes[my].buf = h; o.nodes[my].buflen = sz * sizeof(struct cbor_pair);
      n.kids.resize(sz * 2);
      for (size_t i = 0; i < sz; i++) {
        if (!h[i].key || !h[i].value) { o.problem = "NULL key or value below map size"; return; }
        observe_into(h[i].key, n.kids[2 * i], o, depth + 1);
        observe_into(h[i].value, n.kids[2 * i + 1], o, depth + 1);
      }
      break;
    }
    case CBOR_TYPE_TAG: {
      n.type = 6; n.value = cbor_tag_value(it);
      cbor_item_t* inner = cbor_tag_item(it);   // hands out a reference ...
      if (!inner) { o.problem = "tag without item"; return; }
      cbor_item_t* tmp = inner; cbor_decref(&tmp);  // ... which is released at once (count >= 2 here, so no free)
      n.kids.resize(1);
      observe_into(inner, n.kids[0], o, depth + 1);
      break;
    }
    case CBOR_TYPE_FLOAT_CTRL: {
      n.type = 7;
      switch (cbor_float_get_width(it)) {
        case CBOR_FLOAT_0:
          n.width = 0; n.value = cbor_ctrl_value(it);
          if (!cbor_float_ctrl_is_ctrl(it)) o.problem = "width 0 but not ctrl";
          break;
        case CBOR_FLOAT_16: {
          n.width = 1; uint32_t u = f2u(cbor_float_get_float2(it)); uint16_t h;
          if (ref::single_is_nan(u)) n.value = 0x7e00;
          else if (ref::single_to_half_exact(u, &h)) n.value = h;
          else n.value = 0x10000ULL | u;
          break;
        }
        case CBOR_FLOAT_32: n.width = 2; n.value = f2u(cbor_float_get_float4(it)); break;
        case CBOR_FLOAT_64: n.width = 3; n.value = d2u(cbor_float_get_float8(it)); break;
        default: o.problem = "float width outside enum";
      }
      break;
    }
    default: o.problem = "type outside enum";
  }
}

static inline Observation observe(const cbor_item_t* it) {
  Observation o;
  observe_into(it, o.ast, o, 1);
  return o;
}

}  // namespace obs
