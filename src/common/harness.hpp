// Shared driver skeleton: a driver's unit of work is a Case (campaign name, four
// integers, a byte string).  Enumerators, scalar sweeps, rapidcheck generators and
// libFuzzer targets all produce Cases and hand them to Ctx::exec, which
//   1. writes the case to an mmap'ed journal *before* running it (so a sanitizer
//      abort / assert / signal leaves the in-flight case on disk for the runner),
//   2. calls the driver's run_case (the oracle),
//   3. tallies evaluations / distinct non-trivial cases / class histogram / samples,
//   4. on an oracle failure writes a replay file and remembers it.
// The driver prints one JSON object with its statistics on exit.
#pragma once
#include <cstdint>
#include <cstdio>
#include <cstdlib>
#include <cstring>
#include <string>
#include <vector>
#include <map>
#include <unordered_set>
#include <algorithm>
#include <chrono>
#include <functional>
#include <atomic>
#include <thread>
#include <fcntl.h>
#include <unistd.h>
#include <sys/mman.h>
#include <sys/stat.h>

namespace vh {

typedef std::vector<uint8_t> Bytes;

struct Case {
  std::string campaign;
  uint64_t aux[4] = {0, 0, 0, 0};
  Bytes data;
};

struct Result {
  bool ok = true;
  bool nontrivial = false;
  bool skipped = false;       // case outside the decidable domain (counted, not judged)
  const char* klass = "";     // histogram bucket
  std::string msg;            // on failure: expected / observed
};

static inline std::string hex(const uint8_t* p, size_t n) {
  static const char* d = "0123456789abcdef";
  std::string s; s.reserve(2 * n);
  for (size_t i = 0; i < n; i++) { s.push_back(d[p[i] >> 4]); s.push_back(d[p[i] & 15]); }
  return s;
}
static inline std::string hex(const Bytes& b) { return hex(b.data(), b.size()); }
static inline Bytes unhex(const std::string& s) {
  Bytes b; auto v = [](char c) { return c <= '9' ? c - '0' : (c | 32) - 'a' + 10; };
  for (size_t i = 0; i + 1 < s.size(); i += 2) b.push_back((uint8_t)(v(s[i]) * 16 + v(s[i + 1])));
  return b;
}
static inline uint64_t fnv1a(const void* p, size_t n, uint64_t h = 1469598103934665603ULL) {
  const uint8_t* b = (const uint8_t*)p;
  for (size_t i = 0; i < n; i++) { h ^= b[i]; h *= 1099511628211ULL; }
  return h;
}
static inline uint64_t case_hash(const Case& c) {
  uint64_t h = fnv1a(c.campaign.data(), c.campaign.size());
  h = fnv1a(c.aux, sizeof c.aux, h);
  return fnv1a(c.data.data(), c.data.size(), h);
}
static inline uint64_t splitmix64(uint64_t x) {
  x += 0x9E3779B97F4A7C15ULL;
  x = (x ^ (x >> 30)) * 0xBF58476D1CE4E5B9ULL;
  x = (x ^ (x >> 27)) * 0x94D049BB133111EBULL;
  return x ^ (x >> 31);
}
// counter-based pseudo-random stream: a pure function of (seed, stream, i)
static inline uint64_t prand(uint64_t seed, uint64_t stream, uint64_t i) {
  return splitmix64(splitmix64(seed * 0x632BE59BD9B4E019ULL + stream) + i * 0x9E3779B97F4A7C15ULL);
}
static inline std::string json_escape(const std::string& s) {
  std::string o;
  for (unsigned char c : s) {
    if (c == '"' || c == '\\') { o.push_back('\\'); o.push_back((char)c); }
    else if (c < 0x20 || c >= 0x7f) { char b[8]; snprintf(b, sizeof b, "\\u%04x", c); o += b; }
    else o.push_back((char)c);
  }
  return o;
}

// ---- journal ---------------------------------------------------------------------------
struct JournalHdr {
  uint32_t magic;      // 'VJ01'
  uint32_t datalen;
  char campaign[24];
  uint64_t aux[4];
  uint64_t seq;
};
struct Journal {
  uint8_t* base = nullptr; size_t cap = 0;
  bool open(const char* path, size_t size = (1u << 20)) {
    int fd = ::open(path, O_RDWR | O_CREAT | O_TRUNC, 0644);
    if (fd < 0) return false;
    if (ftruncate(fd, (off_t)size) != 0) { close(fd); return false; }
    void* p = mmap(nullptr, size, PROT_READ | PROT_WRITE, MAP_SHARED, fd, 0);
    close(fd);
    if (p == MAP_FAILED) return false;
    base = (uint8_t*)p; cap = size; memset(base, 0, sizeof(JournalHdr));
    return true;
  }
  void set(const Case& c, uint64_t seq) {
    if (!base) return;
    JournalHdr* h = (JournalHdr*)base;
    size_t n = std::min(c.data.size(), cap - sizeof(JournalHdr));
    h->magic = 0;  // invalid while being written
    h->datalen = (uint32_t)n;
    memset(h->campaign, 0, sizeof h->campaign);
    memcpy(h->campaign, c.campaign.data(), std::min(c.campaign.size(), sizeof h->campaign - 1));
    memcpy(h->aux, c.aux, sizeof h->aux);
    h->seq = seq;
    if (n) memcpy(base + sizeof(JournalHdr), c.data.data(), n);
    __atomic_thread_fence(__ATOMIC_SEQ_CST);
    h->magic = 0x564A3031;
  }
  void clear() { if (base) ((JournalHdr*)base)->magic = 0; }
};

// ---- case files ------------------------------------------------------------------------
static inline bool write_case_file(const std::string& path, const std::string& prop,
                                   const std::string& driver, const Case& c,
                                   const std::string& msg, const Case* before = nullptr) {
  FILE* f = fopen(path.c_str(), "w");
  if (!f) return false;
  fprintf(f, "property: %s\ndriver: %s\ncampaign: %s\naux: %llu %llu %llu %llu\ndata: %s\n",
          prop.c_str(), driver.c_str(), c.campaign.c_str(), (unsigned long long)c.aux[0],
          (unsigned long long)c.aux[1], (unsigned long long)c.aux[2], (unsigned long long)c.aux[3],
          hex(c.data).c_str());
  // the case that ran just before this one in the same process: replay runs it first if the case passes alone
  if (before) fprintf(f, "before: %s|%llu %llu %llu %llu|%s\n", before->campaign.c_str(), (unsigned long long)before->aux[0], (unsigned long long)before->aux[1],
                      (unsigned long long)before->aux[2], (unsigned long long)before->aux[3], hex(before->data).c_str());
  std::string m = msg; std::replace(m.begin(), m.end(), '\n', ' ');
  fprintf(f, "note: %s\n", m.c_str());
  fclose(f);
  return true;
}
static inline bool read_case_file(const std::string& path, Case& c, std::string* prop = nullptr, Case* before = nullptr, bool* has_before = nullptr) {
  FILE* f = fopen(path.c_str(), "r");
  if (!f) return false;
  char* line = nullptr; size_t cap = 0; ssize_t n;
  while ((n = getline(&line, &cap, f)) > 0) {
    std::string s(line, (size_t)n);
    while (!s.empty() && (s.back() == '\n' || s.back() == '\r')) s.pop_back();
    auto starts = [&](const char* k) { return s.compare(0, strlen(k), k) == 0; };
    if (starts("campaign: ")) c.campaign = s.substr(10);
    else if (starts("property: ")) { if (prop) *prop = s.substr(10); }
    else if (starts("aux: ")) {
      unsigned long long a, b, d, e;
      if (sscanf(s.c_str() + 5, "%llu %llu %llu %llu", &a, &b, &d, &e) == 4) { c.aux[0] = a; c.aux[1] = b; c.aux[2] = d; c.aux[3] = e; }
    } else if (starts("data: ")) c.data = unhex(s.substr(6));
    else if (starts("before: ") && before) {
      size_t p1 = s.find('|', 8), p2 = p1 == std::string::npos ? p1 : s.find('|', p1 + 1);
      unsigned long long a, b, d, e;
      if (p2 != std::string::npos && sscanf(s.c_str() + p1 + 1, "%llu %llu %llu %llu", &a, &b, &d, &e) == 4) {
        before->campaign = s.substr(8, p1 - 8); before->aux[0] = a; before->aux[1] = b; before->aux[2] = d; before->aux[3] = e; before->data = unhex(s.substr(p2 + 1));
        if (has_before) *has_before = true;
      }
    }
  }
  free(line); fclose(f);
  return true;
}

// progress counter for the hang watchdog: bumped when a case starts and when it ends
static std::atomic<uint64_t> g_case_ticks{0};
static std::atomic<int> g_in_case{0};

// free-form measured counts (oracles bump them), summed over shards by the runner
static std::map<std::string, uint64_t> counters;

// ---- context ---------------------------------------------------------------------------
struct Ctx {
  std::string prop, driver, tier = "quick", campaign_filter, faildir = "replays", hashfile;
  uint64_t seed = 1;
  unsigned shard = 0, nshards = 1;
  double budget_s = 1e9;
  Journal journal;
  std::function<Result(const Case&)> oracle;
  std::function<std::string(const Case&)> pretty;   // optional human-readable rendering of a case for evidence samples

  uint64_t evaluations = 0, nontrivial = 0, skipped = 0, seq = 0;
  bool distinct_by_construction = true;  // a campaign that may repeat cases clears this
  std::unordered_set<uint64_t> nt_hashes;
  std::map<std::string, uint64_t> classes;
  std::map<std::string, uint64_t> per_campaign, nt_per_campaign;
  std::map<std::string, bool> campaign_exhaustive;
  std::map<std::string, std::string> notes;
  std::vector<std::string> samples;
  std::vector<std::string> failures;
  bool inconclusive = false;
  size_t max_failures = 3, max_samples = 24;
  Case prev; bool have_prev = false;   // the case that ran just before the current one in this process (kept for the failure record)
  std::chrono::steady_clock::time_point t0 = std::chrono::steady_clock::now();

  double elapsed() const { return std::chrono::duration<double>(std::chrono::steady_clock::now() - t0).count(); }
  bool out_of_time() { if (elapsed() > budget_s) { inconclusive = true; return true; } return false; }
  bool stop() const { return failures.size() >= max_failures; }
  bool mine(uint64_t index) const { return index % nshards == shard; }

  std::string describe(const Case& c) const {
    char b[160];
    snprintf(b, sizeof b, "%s aux=[%llu,%llu,%llu,%llu] data=", c.campaign.c_str(), (unsigned long long)c.aux[0],
             (unsigned long long)c.aux[1], (unsigned long long)c.aux[2], (unsigned long long)c.aux[3]);
    std::string h = hex(c.data);
    if (h.size() > 160) h = h.substr(0, 160) + "...(" + std::to_string(c.data.size()) + "B)";
    std::string p = pretty ? pretty(c) : std::string();
    if (p.size() > 400) p = p.substr(0, 400) + "...";
    return std::string(b) + h + (p.empty() ? "" : "  = " + p);
  }

  // returns true if the case passed (or was skipped)
  bool exec(const Case& c) {
    bool ok = exec_inner(c);
    if (c.data.size() <= 4096) { prev = c; have_prev = true; } else have_prev = false;
    return ok;
  }
  bool exec_inner(const Case& c) {
    journal.set(c, ++seq);
    g_case_ticks++; g_in_case = 1;
    Result r = oracle(c);
    g_in_case = 0; g_case_ticks++;
    journal.clear();
    evaluations++;
    per_campaign[c.campaign]++;
    if (r.skipped) { skipped++; classes["skipped"]++; return true; }
    if (r.klass && *r.klass) classes[r.klass]++;
    if (r.nontrivial) {
      if (distinct_by_construction) nontrivial++;
      else if (nt_hashes.size() < (1u << 22)) nt_hashes.insert(case_hash(c));
      // deterministic sampling: the 1st, 100th and 10000th non-trivial case of each campaign
      uint64_t k = ++nt_per_campaign[c.campaign];
      if ((k == 1 || k == 100 || k == 10000) && samples.size() < max_samples) samples.push_back(describe(c));
    }
    if (!r.ok) {
      if (failures.size() >= max_failures) { counters["failures_beyond_the_first_three_of_a_shard"]++; return false; }   // a loop that polls stop() rarely
      char name[64]; snprintf(name, sizeof name, "%016llx", (unsigned long long)case_hash(c));
      std::string path = faildir + "/" + prop + "-" + name + ".case";
      write_case_file(path, prop, driver, c, r.msg, have_prev ? &prev : nullptr);
      failures.push_back(path);
      fprintf(stderr, "ORACLE-FAIL %s %s :: %s\n", prop.c_str(), describe(c).c_str(), r.msg.c_str());
      return false;
    }
    return true;
  }

  void finish(FILE* out) {
    uint64_t nt = nontrivial + nt_hashes.size();
    if (!hashfile.empty() && !nt_hashes.empty()) {
      std::vector<uint64_t> v(nt_hashes.begin(), nt_hashes.end());
      std::sort(v.begin(), v.end());
      FILE* f = fopen(hashfile.c_str(), "wb");
      if (f) { fwrite(v.data(), 8, v.size(), f); fclose(f); }
    }
    fprintf(out, "{\"evaluations\": %llu, \"nontrivial_counted\": %llu, \"nontrivial_hashed\": %llu, \"skipped\": %llu, \"inconclusive\": %s, \"wall_s\": %.3f,\n",
            (unsigned long long)evaluations, (unsigned long long)nontrivial, (unsigned long long)nt_hashes.size(),
            (unsigned long long)skipped, inconclusive ? "true" : "false", elapsed());
    (void)nt;
    fprintf(out, " \"classes\": {");
    bool first = true;
    for (auto& kv : classes) { fprintf(out, "%s\"%s\": %llu", first ? "" : ", ", json_escape(kv.first).c_str(), (unsigned long long)kv.second); first = false; }
    fprintf(out, "},\n \"campaigns\": {");
    first = true;
    for (auto& kv : per_campaign) {
      fprintf(out, "%s\"%s\": {\"evaluations\": %llu, \"exhaustive\": %s}", first ? "" : ", ", json_escape(kv.first).c_str(),
              (unsigned long long)kv.second, campaign_exhaustive[kv.first] ? "true" : "false");
      first = false;
    }
    fprintf(out, "},\n \"counters\": {");
    first = true;
    for (auto& kv : counters) { fprintf(out, "%s\"%s\": %llu", first ? "" : ", ", json_escape(kv.first).c_str(), (unsigned long long)kv.second); first = false; }
    fprintf(out, "},\n \"notes\": {");
    first = true;
    for (auto& kv : notes) { fprintf(out, "%s\"%s\": \"%s\"", first ? "" : ", ", json_escape(kv.first).c_str(), json_escape(kv.second).c_str()); first = false; }
    fprintf(out, "},\n \"samples\": [");
    for (size_t i = 0; i < samples.size(); i++) fprintf(out, "%s\"%s\"", i ? ", " : "", json_escape(samples[i]).c_str());
    fprintf(out, "],\n \"failures\": [");
    for (size_t i = 0; i < failures.size(); i++) fprintf(out, "%s\"%s\"", i ? ", " : "", json_escape(failures[i]).c_str());
    fprintf(out, "]}\n");
  }
};

}  // namespace vh
#ifdef VH_WITH_RC
namespace rcg { bool run(const std::string& gen, const std::function<bool(const vh::Case&)>& oracle, vh::Case& minimal, uint64_t* generated); }
#endif
namespace vh {

// A driver implements these two.
// One really existing buffer of 2^32 + 64 KiB bytes (address space only; pages are touched on demand), so that
// buffer sizes beyond INT_MAX and UINT32_MAX can be passed truthfully.  nullptr if the mapping is refused.
static const size_t kHugeSize = ((size_t)1 << 32) + 65536;
static inline uint8_t* huge_buffer() {
  static uint8_t* p = [] { void* m = mmap(nullptr, kHugeSize, PROT_READ | PROT_WRITE, MAP_PRIVATE | MAP_ANONYMOUS | MAP_NORESERVE, -1, 0); return m == MAP_FAILED ? (uint8_t*)nullptr : (uint8_t*)m; }();
  return p;
}
static const size_t kHugeClaims[] = {0x7fffffffull, 0x80000000ull, 0x80000003ull, 0xffffffffull, 0x100000000ull, 0x100000002ull, 0x100000009ull};

struct Driver {
  const char* name;
  // run every campaign selected by ctx.campaign_filter ("" = all of the tier) for ctx.prop
  void (*run_campaigns)(Ctx&);
  // judge one case for property ctx.prop
  Result (*run_case)(const std::string& prop, const Case&);
  // optional: render a case in words (op names) for the evidence samples
  std::string (*pretty)(const Case&) = nullptr;
  // replay runs the case this many times in one process and fails if any repetition fails.  For an
  // operation that is required to keep no state between calls this is the reproducible unit: a
  // stateless implementation answers every repetition alike, so repeating can never create an alarm.
  // (bounded by 15 s of wall time, which can only make a history-dependent failure not reproduce.)
  unsigned replay_repeat = 3000;
};

static inline int driver_main(int argc, char** argv, const Driver& drv) {
  Ctx ctx; ctx.driver = drv.name;
  std::string replay, outpath, journalpath, rcgen;
  for (int i = 1; i < argc; i++) {
    std::string a = argv[i];
    auto val = [&]() -> std::string { return i + 1 < argc ? argv[++i] : ""; };
    if (a == "--prop") ctx.prop = val();
    else if (a == "--tier") ctx.tier = val();
    else if (a == "--campaign") ctx.campaign_filter = val();
    else if (a == "--seed") ctx.seed = strtoull(val().c_str(), nullptr, 10);
    else if (a == "--shard") { std::string s = val(); sscanf(s.c_str(), "%u/%u", &ctx.shard, &ctx.nshards); if (!ctx.nshards) ctx.nshards = 1; }
    else if (a == "--budget") ctx.budget_s = atof(val().c_str());
    else if (a == "--out") outpath = val();
    else if (a == "--journal") journalpath = val();
    else if (a == "--faildir") ctx.faildir = val();
    else if (a == "--hashfile") ctx.hashfile = val();
    else if (a == "--replay") replay = val();
    else if (a == "--rc") rcgen = val();
    else { fprintf(stderr, "unknown argument %s\n", a.c_str()); return 2; }
  }
  if (ctx.prop.empty()) { fprintf(stderr, "--prop required\n"); return 2; }
  ctx.oracle = [&](const Case& c) { return drv.run_case(ctx.prop, c); };
  if (drv.pretty) ctx.pretty = drv.pretty;
  if (!replay.empty()) {
    Case c;
    Case before; bool has_before = false;
    if (!read_case_file(replay, c, nullptr, &before, &has_before)) { fprintf(stderr, "cannot read %s\n", replay.c_str()); return 2; }
    Result r = drv.run_case(ctx.prop, c);
    if (r.ok && !r.skipped && has_before) {   // passes alone: once more after the case that preceded it in the campaign
      (void)drv.run_case(ctx.prop, before);
      r = drv.run_case(ctx.prop, c);
      if (!r.ok) r.msg = "(only after the case recorded as 'before' has run in the same process; alone it passes) " + r.msg;
    }
    auto t_rep = std::chrono::steady_clock::now();
    unsigned reps = drv.replay_repeat;
    if (const char* e = getenv("VERIF_REPLAY_REPEAT")) reps = (unsigned)strtoul(e, nullptr, 10);
    for (unsigned k = 1; k < reps && r.ok && !r.skipped && std::chrono::steady_clock::now() - t_rep < std::chrono::seconds(15); k++) {
      r = drv.run_case(ctx.prop, c);
      if (!r.ok) r.msg = "(repetition " + std::to_string(k + 1) + " of the same case in one process; the first " + std::to_string(k) + " passed) " + r.msg;
    }
    if (r.skipped) { printf("REPLAY skipped (outside the decidable domain)\n"); return 0; }
    printf("REPLAY %s: %s\n", r.ok ? "pass" : "FAIL", r.msg.c_str());
    return r.ok ? 0 : 1;
  }
  if (!journalpath.empty()) ctx.journal.open(journalpath.c_str());
  // hang watchdog: one case that does not finish within 90 s is reported through the journal like a crash
  std::thread([] {
    uint64_t last = ~0ull; int stuck = 0;
    for (;;) {
      std::this_thread::sleep_for(std::chrono::seconds(1));
      uint64_t now = g_case_ticks.load();
      if (g_in_case.load() && now == last) { if (++stuck >= 90) { fprintf(stderr, "WATCHDOG: the in-flight case did not finish within 90 s — treated as a hang\n"); abort(); } }
      else { stuck = 0; last = now; }
    }
  }).detach();
  if (!rcgen.empty()) {
#ifdef VH_WITH_RC
    // rapidcheck front end: the same oracle, cases drawn (and on failure shrunk) by rapidcheck
    ctx.distinct_by_construction = false;
    Case minimal; uint64_t generated = 0;
    bool ok = rcg::run(rcgen, [&](const Case& c) {
      ctx.journal.set(c, ++ctx.seq);
      g_case_ticks++; g_in_case = 1;
      Result r = drv.run_case(ctx.prop, c);
      g_in_case = 0; g_case_ticks++;
      ctx.journal.clear();
      ctx.evaluations++; ctx.per_campaign["RC-" + rcgen]++;
      if (r.skipped) { ctx.skipped++; return true; }
      if (r.klass && *r.klass) ctx.classes[r.klass]++;
      if (r.nontrivial && r.ok) { if (ctx.nt_hashes.size() < (1u << 22)) ctx.nt_hashes.insert(case_hash(c)); uint64_t k = ++ctx.nt_per_campaign[rcgen]; if ((k == 1 || k == 50 || k == 1000) && ctx.samples.size() < ctx.max_samples) ctx.samples.push_back("RC-" + rcgen + " " + ctx.describe(c)); }
      return r.ok;
    }, minimal, &generated);
    if (!ok) {
      Result r = drv.run_case(ctx.prop, minimal);
      char name[64]; snprintf(name, sizeof name, "%016llx", (unsigned long long)case_hash(minimal));
      std::string path = ctx.faildir + "/" + ctx.prop + "-rc-" + name + ".case";
      write_case_file(path, ctx.prop, ctx.driver, minimal, "(shrunk by rapidcheck) " + r.msg);
      ctx.failures.push_back(path);
    }
    ctx.notes["RC-" + rcgen] = "rapidcheck generator '" + rcgen + "' (src/gen/rc_cases.cpp), configured through RC_PARAMS; failures are shrunk by rapidcheck before the replay file is written";
#else
    fprintf(stderr, "this binary was built without rapidcheck\n"); return 2;
#endif
  } else
  drv.run_campaigns(ctx);
  FILE* out = outpath.empty() ? stdout : fopen(outpath.c_str(), "w");
  if (!out) out = stdout;
  ctx.finish(out);
  if (out != stdout) fclose(out);
  return ctx.failures.empty() ? 0 : 1;
}

}  // namespace vh
