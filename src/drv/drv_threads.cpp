// drv_threads — decides C17: independent items can be used from different threads.
// A case = (thread count aux[0], workload seed aux[1], ops per thread aux[2]).  Every thread runs
// a workload over the whole API on thread-private data; the threads are released together by a
// barrier.  The concurrent phase runs FIRST (so that first-use effects such as lazily
// initialised statics happen under contention), then every workload is run again alone and the
// per-thread digests are compared.  Built in the tsan flavour: ThreadSanitizer reports any
// conflicting unsynchronised access, whatever order the schedule happened to produce.
#include <cstdio>
#include <cstdlib>
#include <cstring>
#include <string>
#include <thread>
#include <vector>
#include <pthread.h>
#include <dlfcn.h>
#include <clocale>
#include <csignal>
#include <atomic>
#include "cbor.h"
#include "common/harness.hpp"
#include "alloc/valloc.hpp"
#include "ref/refcbor.hpp"
#include "gen/enum.hpp"
#include "drv/treeprog.hpp"

using vh::Case; using vh::Result; using vh::Ctx;

// stateless (hence thread-safe) capping wrappers around the C library allocator: damaged inputs declare
// counts of up to 2^64 entries, which a sanitizer runtime treats as a fatal allocation-size error
static void* cap_malloc(size_t n) { return n > ((size_t)1 << 24) ? nullptr : malloc(n ? n : 1); }
static void* cap_realloc(void* p, size_t n) { return n > ((size_t)1 << 24) ? nullptr : realloc(p, n ? n : 1); }
static void cap_free(void* p) { free(p); }

// ---- process-global state reached through the C library ------------------------------------------
// The harness interposes the libc entry points that mutate process-wide state.  A call made while a
// workload is running can only come from libcbor ("keeps no hidden mutable global state").
static thread_local int tl_in_workload = 0;
static std::atomic<int> g_global_mutations{0};
static const char* volatile g_global_fn = "";
static void note_global(const char* fn) { if (tl_in_workload) { g_global_mutations++; g_global_fn = fn; } }
typedef char* (*setlocale_t)(int, const char*); typedef int (*setenv_t)(const char*, const char*, int); typedef int (*putenv_t)(char*);
typedef int (*unsetenv_t)(const char*); typedef void (*srand_t)(unsigned); typedef int (*chdir_t)(const char*);
extern "C" {
char* setlocale(int cat, const char* loc) noexcept { static setlocale_t real = (setlocale_t)dlsym(RTLD_NEXT, "setlocale"); if (loc) note_global("setlocale"); return real(cat, loc); }
int setenv(const char* n, const char* v, int o) noexcept { static setenv_t real = (setenv_t)dlsym(RTLD_NEXT, "setenv"); note_global("setenv"); return real(n, v, o); }
int putenv(char* e) noexcept { static putenv_t real = (putenv_t)dlsym(RTLD_NEXT, "putenv"); note_global("putenv"); return real(e); }
int unsetenv(const char* n) noexcept { static unsetenv_t real = (unsetenv_t)dlsym(RTLD_NEXT, "unsetenv"); note_global("unsetenv"); return real(n); }
void srand(unsigned v) noexcept { static srand_t real = (srand_t)dlsym(RTLD_NEXT, "srand"); note_global("srand"); real(v); }
int chdir(const char* d) noexcept { static chdir_t real = (chdir_t)dlsym(RTLD_NEXT, "chdir"); note_global("chdir"); return real(d); }
}

static std::vector<gen::Bytes> g_pool;   // immutable after start-up: shared read-only by all threads

struct Digest { uint64_t h = 1469598103934665603ULL; uint64_t allocating_ops = 0; void add(const void* p, size_t n) { h = vh::fnv1a(p, n, h); } void add64(uint64_t v) { add(&v, 8); } };

struct EvRec { Digest* d; };
static void e_u8(void* c, uint8_t v) { ((EvRec*)c)->d->add64(0x100 | v); } static void e_u16(void* c, uint16_t v) { ((EvRec*)c)->d->add64(0x20000 | v); }
static void e_u32(void* c, uint32_t v) { ((EvRec*)c)->d->add64(0x300000000ull | v); } static void e_u64(void* c, uint64_t v) { ((EvRec*)c)->d->add64(v ^ 0x4444); }
static void e_s(void* c, cbor_data p, uint64_t n) { ((EvRec*)c)->d->add64(n); ((EvRec*)c)->d->add(p, (size_t)n); } static void e_v(void* c) { ((EvRec*)c)->d->add64(0x55); }
static void e_f(void* c, float v) { uint32_t u; memcpy(&u, &v, 4); if (v != v) u = 0x7fc00000u; ((EvRec*)c)->d->add64(u); } static void e_d(void* c, double v) { uint64_t u; memcpy(&u, &v, 8); if (v != v) u = 0x7ff8ull << 48; ((EvRec*)c)->d->add64(u); }
static void e_b(void* c, bool v) { ((EvRec*)c)->d->add64(v ? 0x66 : 0x67); }
static struct cbor_callbacks ev_table() {
  struct cbor_callbacks c;
  c.uint8 = e_u8; c.uint16 = e_u16; c.uint32 = e_u32; c.uint64 = e_u64; c.negint8 = e_u8; c.negint16 = e_u16; c.negint32 = e_u32; c.negint64 = e_u64;
  c.byte_string = e_s; c.byte_string_start = e_v; c.string = e_s; c.string_start = e_v; c.array_start = e_u64; c.indef_array_start = e_v; c.map_start = e_u64; c.indef_map_start = e_v;
  c.tag = e_u64; c.float2 = e_f; c.float4 = e_f; c.float8 = e_d; c.undefined = e_v; c.null = e_v; c.boolean = e_b; c.indef_break = e_v;
  return c;
}
static const struct cbor_callbacks kEv = ev_table();

static void use_item(cbor_item_t* it, Digest& d) {
  d.add64(cbor_serialized_size(it));
  unsigned char* b = nullptr; size_t bl = 0; size_t w = cbor_serialize_alloc(it, &b, &bl);
  d.add64(w); if (b) { d.add(b, w); _cbor_free(b); }
  unsigned char* b2 = nullptr; size_t w2n = cbor_serialize_alloc(it, &b2, nullptr);   // the buffer_size argument is optional
  d.add64(w2n); if (b2) { d.add(b2, w2n); _cbor_free(b2); }
  cbor_item_t* cp = cbor_copy(it);
  if (cp) { unsigned char fixed[512]; size_t w2 = cbor_serialize(cp, fixed, sizeof fixed); d.add64(w2); d.add(fixed, w2 < sizeof fixed ? w2 : 0); cbor_decref(&cp); }
  char* text = nullptr; size_t tl = 0; FILE* f = open_memstream(&text, &tl);
  if (f) { cbor_describe(it, f); fclose(f); d.add(text, tl); free(text); }
  d.allocating_ops += 3;
}

// every head kind, every builder: run first by every thread so that first-use effects are contended
static const uint8_t kPrelude[] = {0x9f, 0x00, 0x18, 0xff, 0x19, 0x01, 0x00, 0x1a, 0, 1, 0, 0, 0x1b, 0, 0, 0, 1, 0, 0, 0, 0, 0x20, 0x38, 0xff, 0x39, 0x01, 0x00, 0x3a, 0, 1, 0, 0, 0x3b, 0, 0, 0, 1, 0, 0, 0, 0,
                                   0x41, 0x01, 0x5f, 0x41, 0x02, 0xff, 0x62, 0xc3, 0xa9, 0x7f, 0x61, 0x61, 0xff, 0x81, 0x00, 0xa1, 0x00, 0x01, 0xbf, 0x00, 0x01, 0xff, 0xc1, 0x00, 0xd8, 0x18, 0x00,
                                   0xf4, 0xf5, 0xf6, 0xf7, 0xf9, 0x3c, 0x00, 0xf9, 0x00, 0x01, 0xf9, 0x7e, 0x00, 0xfa, 0x3f, 0x80, 0, 0, 0xfb, 0x3f, 0xf0, 0, 0, 0, 0, 0, 0, 0xff};

static void workload_body(uint64_t seed, uint64_t ops, Digest& d);
static void workload(uint64_t seed, uint64_t ops, Digest& d) { tl_in_workload = 1; workload_body(seed, ops, d); tl_in_workload = 0; }
static void workload_body(uint64_t seed, uint64_t ops, Digest& d) {
  {
    struct cbor_load_result r; cbor_item_t* it = cbor_load(kPrelude, sizeof kPrelude, &r);
    d.add64(r.error.code); d.add64(r.read);
    if (it) { use_item(it, d); cbor_decref(&it); }
    EvRec er{&d}; size_t off = 0;
    while (off < sizeof kPrelude) { struct cbor_decoder_result dr = cbor_stream_decode(kPrelude + off, sizeof kPrelude - off, &kEv, &er); if (dr.status != CBOR_DECODER_FINISHED) break; off += dr.read; }
    unsigned char eb[16]; d.add64(cbor_encode_half(1.5f, eb, 16)); d.add(eb, 3); d.add64(cbor_encode_double(2.5, eb, 16)); d.add(eb, 9); d.add64(cbor_encode_uint(1000, eb, 16)); d.add(eb, 3);
  }
  for (uint64_t i = 0; i < ops; i++) {
    uint64_t x = vh::prand(seed, 300, i);
    switch (x % 6) {
      case 0: case 1: {   // decode a well-formed item, or a damaged one
        gen::Bytes in = g_pool[(x >> 8) % g_pool.size()];
        if ((x % 6) == 1 && !in.empty()) { uint64_t y = vh::prand(seed, 301, i); size_t p = (size_t)(y % in.size()); if (y & 0x100) in.resize(p); else in[p] = (uint8_t)(y >> 16); }
        struct cbor_load_result r; memset(&r, 0, sizeof r);
        cbor_item_t* it = cbor_load(in.data(), in.size(), &r);
        d.add64(r.error.code); d.add64(r.read); d.add64(it ? 1 : 0); if (!it) d.add64(r.error.position);
        if (it) { use_item(it, d); cbor_decref(&it); }
        d.allocating_ops++;
        break;
      }
      case 2: {   // build through the construction API
        uint8_t prog[24]; for (size_t k = 0; k < sizeof prog; k++) prog[k] = (uint8_t)vh::prand(seed, 302, i * 32 + k);
        tp::Built b; if (tp::build(prog, 4 + (size_t)((x >> 8) % 20), b, nullptr, 40)) { use_item(b.item, d); cbor_decref(&b.item); }
        d.allocating_ops++;
        break;
      }
      case 3: {   // streaming decoder over a concatenation
        gen::Bytes s; for (int k = 0; k < 3; k++) { const gen::Bytes& y = g_pool[(vh::prand(seed, 303, i * 4 + (uint64_t)k)) % g_pool.size()]; s.insert(s.end(), y.begin(), y.end()); }
        EvRec er{&d}; size_t off = 0;
        // the stream is cut at a seeded length (0 included), so the loop always ends in the NEDATA / empty-buffer path or an error
        size_t lim = (x >> 40) % 3 == 0 ? s.size() : (size_t)((x >> 16) % (s.size() + 1));
        for (;;) { struct cbor_decoder_result dr = cbor_stream_decode(s.data() + off, lim - off, &kEv, &er); d.add64(dr.status); if (dr.status == CBOR_DECODER_NEDATA) d.add64(dr.required); if (dr.status != CBOR_DECODER_FINISHED) break; off += dr.read; }
        break;
      }
      case 5: {   // a deep item (hundreds of levels) decoded, used and released: recursion-bounding scratch state would be shared
        size_t depth = 258 + (size_t)((x >> 8) % 48);
        gen::Bytes in(depth, (uint8_t)((x >> 20) & 1 ? 0x81 : 0xc1)); in.push_back((uint8_t)(x >> 24) & 0x17);
        struct cbor_load_result r; memset(&r, 0, sizeof r);
        cbor_item_t* it = cbor_load(in.data(), in.size(), &r);
        d.add64(r.error.code); d.add64(r.read); d.add64(it ? 1 : 0);
        if (it) { unsigned char* sb = nullptr; size_t sl = 0; size_t w = cbor_serialize_alloc(it, &sb, &sl); d.add64(w); if (sb) { d.add(sb, w); _cbor_free(sb); } cbor_item_t* cp = cbor_copy(it); d.add64(cp ? 1 : 0); if (cp) cbor_decref(&cp); cbor_decref(&it); }
        d.allocating_ops++;
        break;
      }
      default: {  // low-level encoders and a container grown step by step
        unsigned char eb[16]; uint64_t v = vh::prand(seed, 304, i);
        { size_t w1 = cbor_encode_uint(v >> (v % 64), eb, 16); d.add64(w1); d.add(eb, w1); size_t w2 = cbor_encode_half((float)(int)(v % 2048), eb, 16); d.add64(w2); d.add(eb, w2); }
        cbor_item_t* a = cbor_new_indefinite_array();
        for (unsigned k = 0; k < 1 + (v >> 8) % 20; k++) { cbor_item_t* e = cbor_build_uint32((uint32_t)(v + k)); (void)cbor_array_push(a, e); cbor_decref(&e); }
        use_item(a, d); cbor_decref(&a);
        d.allocating_ops++;
      }
    }
  }
}

static Result judge(const Case& c) {
  Result r; r.klass = "threads";
  unsigned nth = (unsigned)c.aux[0]; uint64_t seed = c.aux[1], ops = c.aux[2];
  if (nth < 1 || nth > 64 || ops > 100000) { r.skipped = true; return r; }
  std::vector<Digest> conc(nth), solo(nth);
  pthread_barrier_t bar; pthread_barrier_init(&bar, nullptr, nth);
  std::vector<std::thread> th;
  for (unsigned t = 0; t < nth; t++) th.emplace_back([&, t]() { pthread_barrier_wait(&bar); workload(vh::splitmix64(seed * 64 + t), ops, conc[t]); });
  for (auto& x : th) x.join();
  pthread_barrier_destroy(&bar);
  for (unsigned t = 0; t < nth; t++) workload(vh::splitmix64(seed * 64 + t), ops, solo[t]);
  r.nontrivial = nth >= 2 && conc[0].allocating_ops >= 10;
  if (g_global_mutations.load()) { r.ok = false; r.msg = std::string("libcbor changed process-wide state through ") + (const char*)g_global_fn + "() while a workload was running (hidden mutable global state)"; g_global_mutations = 0; return r; }
  for (unsigned t = 0; t < nth; t++)
    if (conc[t].h != solo[t].h) { r.ok = false; r.msg = "thread " + std::to_string(t) + " of " + std::to_string(nth) + " obtained different results running concurrently than the same workload running alone"; break; }
  return r;
}
static Result run_case(const std::string&, const Case& c) { return judge(c); }

static void run_campaigns(Ctx& ctx) {
  bool thorough = ctx.tier == "thorough";
  Case c; c.campaign = "THREADS";
  uint64_t per_proc = thorough ? 40 : 12;
  static const unsigned counts[] = {2, 4, 8, 16, 3, 2, 16, 8};
  for (uint64_t i = 0; i < per_proc && !ctx.stop(); i++) {
    c.aux[0] = counts[(i + ctx.shard) % 8]; c.aux[1] = ctx.seed * 1000003 + ctx.shard * 1009 + i; c.aux[2] = 20 + (vh::prand(ctx.seed, 310, ctx.shard * 100 + i) % 180);
    ctx.exec(c);
    if (ctx.out_of_time()) break;
  }
  ctx.notes["THREADS"] = "each process runs its first concurrent phase before any single-threaded libcbor call; 2..16 threads released by a barrier, each decoding well-formed and damaged inputs, building through the construction API, copying, serializing (alloc and fixed), describing to a private memstream, stream-decoding, encoding and releasing, on private data; allocator: libc default in even shards, mutex-protected tracking allocator (installed once before any thread starts) in odd shards";
}

int main(int argc, char** argv) {
  tp::allow_unassigned_simple = true;
  { gen::E2 e(gen::leaves_full(), [&](const gen::Bytes& b, int) { g_pool.push_back(b); }); e.run(2); }
  const char* sh = getenv("VERIF_SHARD");
  if (sh && (atoi(sh) & 1)) { va::g.locked = true; va::g.single_cap = (size_t)1 << 24; cbor_set_allocs(va::vmalloc, va::vrealloc, va::vfree); }
  else cbor_set_allocs(cap_malloc, cap_realloc, cap_free);
  vh::Driver drv{"drv_threads", run_campaigns, run_case};
  drv.replay_repeat = 1;   // a case is already a many-thread, many-operation history
  return vh::driver_main(argc, argv, drv);
}
