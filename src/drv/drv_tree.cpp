// drv_tree — decides C03 (serialisation is the RFC encoding and round-trips), C07 (size /
// serialize / serialize_alloc agree, nothing beyond the buffer) and C11 (cbor_copy).
// Campaigns:
//   DEC    tree = cbor_load(data)            data = an enumerated well-formed encoding (E2 / E2p)
//   PROG   tree = tp::build(data)            data = a construction program (enumerated short ones,
//                                            seeded random ones; aux[0] = variant for C11)
//   DEEP   nests up to the decoder limit built through the API (aux[0] = depth, aux[1] = opener kind)
//   ENCN   (C07) aux[0] = encoder id, aux[1] = value, every buffer size n in 0..10
#include <cstdio>
#include <cstdlib>
#include <cstring>
#include <string>
#include <set>
#include <tuple>
#include "cbor.h"
#include "common/harness.hpp"
#include "alloc/valloc.hpp"
#include "ref/refcbor.hpp"
#include "obs/observe.hpp"
#include "gen/enum.hpp"
#include "drv/treeprog.hpp"
#include "drv/encoders.hpp"

using vh::Case; using vh::Result; using vh::Ctx;

static bool make_tree(const Case& c, tp::Built& t, tp::Stats& st, bool& intended_known) {
  intended_known = false;
  if (c.campaign == "DEC" || c.campaign == "RC") {
    struct cbor_load_result res;
    t.item = cbor_load(c.data.data(), c.data.size(), &res);
    return t.item != nullptr;
  }
  if (c.campaign == "DEEP") {
    size_t depth = (size_t)c.aux[0]; int kind = (int)c.aux[1];
    cbor_item_t* cur = kind == 3 ? cbor_new_indefinite_bytestring() : cbor_build_uint8(7);
    if (!cur) return false;
    for (size_t i = 0; i + 1 < depth; i++) {
      cbor_item_t* outer;
      if (kind == 0 || kind == 3) { outer = cbor_new_tag(i); if (outer) cbor_tag_set_item(outer, cur); }
      else if (kind == 1) { outer = cbor_new_definite_array(1); if (outer && !cbor_array_push(outer, cur)) cbor_decref(&outer); }
      else { outer = cbor_new_indefinite_map(); if (outer) { cbor_item_t* k = cbor_build_uint8(1); struct cbor_pair p{k, cur}; bool ok = k && cbor_map_add(outer, p); if (k) cbor_decref(&k); if (!ok) cbor_decref(&outer); } }
      cbor_decref(&cur);
      if (!outer) return false;
      cur = outer;
    }
    t.item = cur;
    return true;
  }
  intended_known = true;
  return tp::build(c.data.data(), c.data.size(), t, &st);
}

static bool interesting(const ref::Node& n, const tp::Stats& st) {
  return ref::node_count(n) >= 3 || st.indef || st.nan || st.boundary || st.shared;
}
static bool has_indef_or_nan(const ref::Node& n) {
  if (n.indef) return true;
  if (n.type == 7 && ((n.width == 1 && ref::half_is_nan((uint16_t)n.value)) || (n.width == 2 && ref::single_is_nan((uint32_t)n.value)) || (n.width == 3 && ref::double_is_nan(n.value)))) return true;
  for (auto& k : n.kids) if (has_indef_or_nan(k)) return true;
  return false;
}

// ---------------------------------------------------------------------------- C03
static Result judge_C03(const Case& c) {
  Result r; r.klass = c.campaign.c_str();
  va::reset_counters();
  tp::Built t; tp::Stats st; bool known;
  if (!make_tree(c, t, st, known)) { va::release_all(); r.skipped = true; return r; }
  auto fail = [&](const std::string& m) { r.ok = false; r.msg = m; if (t.item) cbor_decref(&t.item); va::release_all(); return r; };
  obs::Observation o = obs::observe(t.item);
  if (!o.problem.empty()) return fail("tree invariant: " + o.problem);
  std::string why;
  if (known && !ref::node_equal(t.ast, o.ast, &why)) return fail("tree built through the construction API differs from what the calls are documented to build at " + why);
  r.nontrivial = ref::node_count(o.ast) >= 3 || has_indef_or_nan(o.ast) || st.boundary || st.shared;
  ref::Bytes want = ref::encode(o.ast);
  // the history of this process includes serializations that ran out of room (one byte short, and half): what they
  // return is C07's business, but they must not change what the serializations below produce
  if (want.size() >= 2 && want.size() <= 4096) {
    for (size_t room : {want.size() - 1, want.size() / 2}) { uint8_t* sb = (uint8_t*)malloc(room); (void)cbor_serialize(t.item, sb, room); free(sb); }
    vh::counters["short_buffer_serializations_before_the_judged_one"] += 2;
  }
  unsigned char* buf = nullptr; size_t blen = 0;
  size_t w = cbor_serialize_alloc(t.item, &buf, &blen);
  if (!buf || w == 0) return fail("cbor_serialize_alloc failed for a tree of " + std::to_string(want.size()) + " encoded bytes");
  ref::Bytes got(buf, buf + w);
  va::vfree(buf);
  if (got != want) {
    size_t i = 0; while (i < got.size() && i < want.size() && got[i] == want[i]) i++;
    return fail("serialized bytes differ from the RFC 8949 encoding at offset " + std::to_string(i) + ": got " + vh::hex(got).substr(0, 80) + " want " + vh::hex(want).substr(0, 80));
  }
  if (st.unassigned_simple) {   // simple values 0..19 / 32..255: serialized per RFC 8949 (checked above), not decodable by libcbor's own decoder
    cbor_decref(&t.item);
    if (va::g.live_blocks) { r.ok = false; r.msg = "blocks left allocated after releasing the tree"; va::release_all(); }
    r.klass = "unassigned-simple(no load-back)";
    return r;
  }
  // load back: consumes everything, equal tree, identical bytes again
  uint8_t* in = (uint8_t*)malloc(got.size()); memcpy(in, got.data(), got.size());
  struct cbor_load_result res; memset(&res, 0, sizeof res);
  cbor_item_t* back = cbor_load(in, got.size(), &res);
  free(in);
  if (va::g.refused_single || va::g.refused_total) { if (back) cbor_decref(&back); cbor_decref(&t.item); va::release_all(); Result s; s.skipped = true; return s; }
  if (!back) return fail(std::string("loading the serialized bytes failed: ") + ref::code_name(res.error.code) + "@" + std::to_string(res.error.position) + " bytes " + vh::hex(got).substr(0, 80));
  if (res.read != got.size()) { cbor_decref(&back); return fail("loading the serialized bytes consumed " + std::to_string(res.read) + " of " + std::to_string(got.size())); }
  obs::Observation ob = obs::observe(back);
  if (!ref::node_equal(o.ast, ob.ast, &why)) { cbor_decref(&back); return fail("tree loaded from the serialized bytes differs from the original at " + why); }
  unsigned char* buf2 = nullptr; size_t blen2 = 0;
  size_t w2 = cbor_serialize_alloc(back, &buf2, &blen2);
  bool same = buf2 && w2 == got.size() && memcmp(buf2, got.data(), w2) == 0;
  if (buf2) va::vfree(buf2);
  cbor_decref(&back);
  if (!same) return fail("serializing the re-loaded tree does not reproduce the identical bytes");
  cbor_decref(&t.item);
  if (va::g.live_blocks) { r.ok = false; r.msg = "blocks left allocated after releasing both trees"; va::release_all(); }
  return r;
}

// ---------------------------------------------------------------------------- C07
static Result judge_C07_tree(const Case& c) {
  Result r; r.klass = c.campaign.c_str();
  va::reset_counters();
  tp::Built t; tp::Stats st; bool known;
  if (!make_tree(c, t, st, known)) { va::release_all(); r.skipped = true; return r; }
  auto fail = [&](const std::string& m) { r.ok = false; r.msg = m; if (t.item) cbor_decref(&t.item); va::release_all(); return r; };
  size_t S = cbor_serialized_size(t.item);
  if (S == 0) return fail("cbor_serialized_size returned 0 for a small tree");
  obs::Observation o = obs::observe(t.item);
  ref::Bytes want = ref::encode(o.ast);
  if (S != want.size()) return fail("cbor_serialized_size = " + std::to_string(S) + ", the encoding has " + std::to_string(want.size()) + " bytes");
  r.nontrivial = has_indef_or_nan(o.ast) || ref::node_count(o.ast) >= 2 || S >= 3;
  ref::Bytes ref_out;
  for (size_t n = 0; n <= S + 2; n++) {
    uint8_t* buf = (uint8_t*)malloc(n); memset(buf, 0xC5, n);
    size_t w = cbor_serialize(t.item, buf, n);
    vh::counters["tree_n_pairs"]++;
    std::string m;
    if (n >= S) {
      if (w != S) m = "buffer of " + std::to_string(n) + " bytes: cbor_serialize returned " + std::to_string(w) + ", cbor_serialized_size is " + std::to_string(S);
      else {
        for (size_t i = S; i < n; i++) if (buf[i] != 0xC5) m = "buffer of " + std::to_string(n) + " bytes: byte " + std::to_string(i) + " beyond the encoding was written";
        if (m.empty() && memcmp(buf, want.data(), S) != 0) m = "buffer of " + std::to_string(n) + " bytes: output differs from the encoding";
      }
    } else if (w != 0) m = "buffer of " + std::to_string(n) + " bytes is too small for " + std::to_string(S) + " but cbor_serialize returned " + std::to_string(w);
    free(buf);
    if (!m.empty()) return fail(m);
  }
  // buffers whose size does not fit an int / a uint32_t (really that large: vh::huge_buffer)
  if (uint8_t* hb = vh::huge_buffer()) {
    size_t claim = vh::kHugeClaims[(S + want[0]) % 7];
    memset(hb, 0xC5, S + 2);
    size_t w = cbor_serialize(t.item, hb, claim);
    vh::counters["huge_buffer_calls"]++;
    if (w != S) return fail("buffer of " + std::to_string(claim) + " bytes: cbor_serialize returned " + std::to_string(w) + ", cbor_serialized_size is " + std::to_string(S));
    if (memcmp(hb, want.data(), S) != 0 || hb[S] != 0xC5 || hb[S + 1] != 0xC5) return fail("buffer of " + std::to_string(claim) + " bytes: output differs from the encoding or bytes beyond it were written");
  }
  unsigned char* ab = nullptr; size_t al = 12345;
  size_t aw = cbor_serialize_alloc(t.item, &ab, &al);
  if (!ab) return fail("cbor_serialize_alloc returned no buffer");
  std::string m;
  if (aw != S) m = "cbor_serialize_alloc returned " + std::to_string(aw) + ", size is " + std::to_string(S);
  else if (al != S) m = "cbor_serialize_alloc set *buffer_size = " + std::to_string(al) + ", size is " + std::to_string(S);
  else if (va::size_of(ab) != S) m = "cbor_serialize_alloc allocated " + std::to_string(va::size_of(ab)) + " bytes for an encoding of " + std::to_string(S);
  else if (memcmp(ab, want.data(), S) != 0) m = "cbor_serialize_alloc contents differ from the fixed-buffer output";
  va::vfree(ab);
  if (!m.empty()) return fail(m);
  // buffer_size may be NULL
  unsigned char* ab2 = nullptr; size_t aw2 = cbor_serialize_alloc(t.item, &ab2, nullptr);
  if (!ab2 || aw2 != S) { if (ab2) va::vfree(ab2); return fail("cbor_serialize_alloc with buffer_size == NULL misbehaved"); }
  va::vfree(ab2);
  // the same object measured again after it has changed: one more element in the root container (if it takes one)
  if (cbor_isa_array(t.item) || cbor_isa_map(t.item)) {
    cbor_item_t* e = cbor_build_uint8(7); bool grown = false;
    if (e) { struct cbor_pair pr{e, e}; grown = cbor_isa_array(t.item) ? cbor_array_push(t.item, e) : cbor_map_add(t.item, pr); cbor_decref(&e); }
    if (grown) {
      vh::counters["remeasured_after_growth"]++;
      size_t S2 = cbor_serialized_size(t.item);
      ref::Bytes want2 = ref::encode(obs::observe(t.item).ast);
      if (S2 != want2.size()) return fail("after one more element was added to the root, cbor_serialized_size = " + std::to_string(S2) + ", the encoding has " + std::to_string(want2.size()) + " bytes (it had " + std::to_string(S) + " before)");
      uint8_t* b2 = (uint8_t*)malloc(S2); size_t w2 = cbor_serialize(t.item, b2, S2);
      bool same2 = w2 == S2 && memcmp(b2, want2.data(), S2) == 0; free(b2);
      if (!same2) return fail("after one more element was added to the root, cbor_serialize into a buffer of cbor_serialized_size bytes returned " + std::to_string(w2) + " / different bytes");
    }
  }
  cbor_decref(&t.item);
  if (va::g.live_blocks) { r.ok = false; r.msg = "blocks left allocated"; va::release_all(); }
  return r;
}
static Result judge_C07_enc(int e, uint64_t v) {
  Result r; r.klass = "encoder";
  ref::Bytes want;
  if (e < 0 || e >= EN_COUNT) { r.skipped = true; return r; }
  bool in_domain = ref_head(e, v, want);
  // outside the value domain (e.g. non-half floats, ctrl 24..31) the length is still fixed by the function
  va::reset_counters();
  r.nontrivial = true;
  for (size_t n = 0; n <= 10; n++) {
    uint8_t* buf = (uint8_t*)malloc(n); memset(buf, 0xC5, n);
    size_t w = call_encoder(e, v, buf, n);
    vh::counters["encoder_n_triples"]++;
    std::string m;
    if (w > n) m = "returned " + std::to_string(w) + " for a buffer of " + std::to_string(n);
    else if (w == 0) { for (size_t i = 0; i < n; i++) if (buf[i] != 0xC5) m = "returned 0 but modified byte " + std::to_string(i) + " of a " + std::to_string(n) + "-byte buffer"; if (m.empty() && in_domain && n >= want.size()) m = "returned 0 although the " + std::to_string(want.size()) + "-byte head fits in " + std::to_string(n) + " bytes"; }
    else {
      for (size_t i = w; i < n; i++) if (buf[i] != 0xC5) m = "wrote beyond the " + std::to_string(w) + " bytes it reported (byte " + std::to_string(i) + ")";
      if (m.empty() && in_domain && (w != want.size() || memcmp(buf, want.data(), w) != 0)) m = "wrote " + vh::hex(buf, w) + ", expected " + vh::hex(want);
    }
    free(buf);
    if (!m.empty()) { r.ok = false; r.msg = std::string("cbor_encode_") + enc_name(e) + " value 0x" + vh::hex((const uint8_t*)&v, 8) + "(LE): " + m; return r; }
  }
  if (uint8_t* hb = vh::huge_buffer()) {   // a buffer size that does not fit an int / a uint32_t changes nothing
    uint8_t small[16]; memset(small, 0xC5, 16); size_t ws = call_encoder(e, v, small, 16);
    size_t claim = vh::kHugeClaims[(v ^ (uint64_t)e) % 7];
    memset(hb, 0xC5, 16); size_t wh = call_encoder(e, v, hb, claim);
    vh::counters["huge_buffer_calls"]++;
    if (wh != ws || memcmp(hb, small, 16) != 0) { r.ok = false; r.msg = std::string("cbor_encode_") + enc_name(e) + " value 0x" + vh::hex((const uint8_t*)&v, 8) + "(LE): with a buffer of " + std::to_string(claim) + " bytes it returned " + std::to_string(wh) + " / wrote " + vh::hex(hb, 10) + "; with 16 bytes " + std::to_string(ws) + " / " + vh::hex(small, 10); return r; }
  }
  if (va::g.requests + va::g.frees) { r.ok = false; r.msg = "encoder used the allocator"; }
  return r;
}

// ---------------------------------------------------------------------------- C11
static void collect_ranges(const obs::Observation& o, std::set<const void*>& nodes, std::vector<std::pair<const uint8_t*, const uint8_t*>>& ranges) {
  for (auto& ni : o.nodes) {
    nodes.insert(ni.item);
    ranges.push_back({(const uint8_t*)ni.item, (const uint8_t*)ni.item + sizeof(cbor_item_t)});
    if (ni.buf && ni.buflen) ranges.push_back({(const uint8_t*)ni.buf, (const uint8_t*)ni.buf + ni.buflen});
  }
}
static bool shape_equal(const ref::Node& a, const ref::Node& b, std::string* why) { return ref::node_equal(a, b, why); }

// mutate a tree in place through the API: change every int, every string byte, push to every indefinite array
static void mutate(cbor_item_t* it) {
  switch (cbor_typeof(it)) {
    case CBOR_TYPE_UINT: case CBOR_TYPE_NEGINT:
      switch (cbor_int_get_width(it)) {
        case CBOR_INT_8: cbor_set_uint8(it, (uint8_t)(cbor_get_uint8(it) ^ 0x55)); break;
        case CBOR_INT_16: cbor_set_uint16(it, (uint16_t)(cbor_get_uint16(it) ^ 0x5555)); break;
        case CBOR_INT_32: cbor_set_uint32(it, cbor_get_uint32(it) ^ 0x55555555u); break;
        default: cbor_set_uint64(it, cbor_get_uint64(it) ^ 0x5555555555555555ull); break;
      }
      break;
    case CBOR_TYPE_BYTESTRING:
      if (cbor_bytestring_is_definite(it)) { unsigned char* h = cbor_bytestring_handle(it); for (size_t i = 0; i < cbor_bytestring_length(it); i++) h[i] ^= 0x20; }
      else for (size_t i = 0; i < cbor_bytestring_chunk_count(it); i++) mutate(cbor_bytestring_chunks_handle(it)[i]);
      break;
    case CBOR_TYPE_STRING:
      if (cbor_string_is_definite(it)) { unsigned char* h = cbor_string_handle(it); for (size_t i = 0; i < cbor_string_length(it); i++) h[i] ^= 0x20; }
      else for (size_t i = 0; i < cbor_string_chunk_count(it); i++) mutate(cbor_string_chunks_handle(it)[i]);
      break;
    case CBOR_TYPE_ARRAY: {
      for (size_t i = 0; i < cbor_array_size(it); i++) mutate(cbor_array_handle(it)[i]);
      if (cbor_array_is_indefinite(it)) { cbor_item_t* x = cbor_build_uint8(99); if (x) { (void)cbor_array_push(it, x); cbor_decref(&x); } }
      break;
    }
    case CBOR_TYPE_MAP:
      for (size_t i = 0; i < cbor_map_size(it); i++) { mutate(cbor_map_handle(it)[i].key); mutate(cbor_map_handle(it)[i].value); }
      break;
    case CBOR_TYPE_TAG: { cbor_item_t* in = cbor_tag_item(it); mutate(in); cbor_decref(&in); break; }
    case CBOR_TYPE_FLOAT_CTRL:
      if (cbor_float_get_width(it) == CBOR_FLOAT_32) cbor_set_float4(it, 1234.5f);
      else if (cbor_float_get_width(it) == CBOR_FLOAT_64) cbor_set_float8(it, -9876.25);
      else if (cbor_float_get_width(it) == CBOR_FLOAT_16) cbor_set_float2(it, 0.5f);
      else if (cbor_is_bool(it)) cbor_set_bool(it, !cbor_get_bool(it));
      break;
  }
}
static ref::Bytes ser(cbor_item_t* it) {
  unsigned char* b = nullptr; size_t l = 0; size_t w = cbor_serialize_alloc(it, &b, &l);
  ref::Bytes out; if (b) { out.assign(b, b + w); va::vfree(b); }
  return out;
}
static Result judge_C11(const Case& c) {
  Result r; r.klass = c.campaign.c_str();
  va::reset_counters();
  tp::Built t; tp::Stats st; bool known;
  if (!make_tree(c, t, st, known)) { va::release_all(); r.skipped = true; return r; }
  cbor_item_t* cp = nullptr;
  auto fail = [&](const std::string& m) { r.ok = false; r.msg = m; if (t.item) cbor_decref(&t.item); if (cp) cbor_decref(&cp); va::release_all(); return r; };
  obs::Observation o = obs::observe(t.item);
  ref::Bytes src_bytes = ser(t.item);
  if (src_bytes.empty()) return fail("source does not serialize");
  bool has_container = false, has_string = false;
  for (auto& ni : o.nodes) { if (ni.type == 4 || ni.type == 5 || ni.type == 6) has_container = true; if (ni.type == 2 || ni.type == 3) has_string = true; }
  r.nontrivial = has_container && (has_string || st.shared);
  va::Snapshot before = va::snapshot();
  uint64_t req0 = va::g.requests;
  cp = cbor_copy(t.item);
  uint64_t copy_requests = va::g.requests - req0;
  if (!cp) return fail("cbor_copy returned NULL without any allocation being refused");
  // source untouched: the byte image of every block that was live before the call is unchanged
  {
    std::vector<va::BlockInfo> now = va::live();
    if (now.size() < before.blocks.size()) return fail("cbor_copy released a block of the source");
    for (size_t i = 0; i < before.blocks.size(); i++) {
      if (now[i].ptr != before.blocks[i].ptr || now[i].serial != before.blocks[i].serial || now[i].size != before.blocks[i].size) return fail("cbor_copy replaced or resized a block of the source");
      if (now[i].size && memcmp(now[i].ptr, before.bytes[i].data(), now[i].size) != 0) return fail("cbor_copy changed the contents or reference counts of the source (byte image of a source block differs)");
    }
  }
  obs::Observation oc = obs::observe(cp);
  std::string why;
  if (!oc.problem.empty()) return fail("copy invariant: " + oc.problem);
  if (!shape_equal(o.ast, oc.ast, &why)) return fail("copy has a different shape at " + why);
  if (ser(cp) != src_bytes) return fail("copy serializes to different bytes");
  for (auto& ni : oc.nodes) if (ni.refcount != 1) return fail("a node of the copy has reference count " + std::to_string(ni.refcount));
  // no node and no buffer shared; a node shared inside the source must come out unshared
  {
    std::set<const void*> sn, cn; std::vector<std::pair<const uint8_t*, const uint8_t*>> sr, cr;
    collect_ranges(o, sn, sr); collect_ranges(oc, cn, cr);
    if (cn.size() != oc.nodes.size()) return fail("a node appears twice in the copy (shared sub-item was not unshared)");
    // overlap between any source range and any copy range: one sweep over the ranges sorted by start
    std::vector<std::tuple<const uint8_t*, const uint8_t*, int>> all;
    for (auto& a : sr) if (a.first < a.second) all.emplace_back(a.first, a.second, 0);
    for (auto& b : cr) if (b.first < b.second) all.emplace_back(b.first, b.second, 1);
    std::sort(all.begin(), all.end());
    const uint8_t* maxend[2] = {nullptr, nullptr};
    for (auto& x : all) {
      int side = std::get<2>(x);
      if (maxend[1 - side] && std::get<0>(x) < maxend[1 - side]) return fail("copy and source share a node or a buffer");
      if (!maxend[side] || std::get<1>(x) > maxend[side]) maxend[side] = std::get<1>(x);
    }
  }
  // a copy that fails for lack of memory must leave the source (and everything else) exactly as it was
  if ((c.aux[0] & 1) == 0 && copy_requests <= 48) {
    va::Snapshot snap = va::snapshot();
    for (uint64_t k = 0; k < copy_requests; k++) {
      va::g.refused_fault = 0; va::g.fail_at = (int64_t)va::g.requests + (int64_t)k;
      cbor_item_t* cp2 = cbor_copy(t.item);
      bool refused = va::g.refused_fault > 0; va::g.refused_fault = 0; va::reset_faults();
      vh::counters["starved_copies"]++;
      if (cp2) { if (refused) { cbor_decref(&cp2); return fail("cbor_copy returned a tree although request " + std::to_string(k) + " of the copy was refused"); } cbor_decref(&cp2); }
      else if (!refused) return fail("cbor_copy returned NULL without an allocation being refused");
      const char* why2 = "";
      if (!va::same_as(snap, &why2)) return fail("cbor_copy with its request " + std::to_string(k) + " refused: " + why2 + " (source contents / reference counts changed, or memory leaked)");
    }
  }
  // independence: mutate / release one side and re-check the other, in the order chosen by aux[0]
  bool mutate_copy = (c.aux[0] & 1) == 0;
  cbor_item_t*& victim = mutate_copy ? cp : t.item;
  cbor_item_t*& other = mutate_copy ? t.item : cp;
  mutate(victim);
  if (ser(other) != src_bytes) return fail(std::string("modifying the ") + (mutate_copy ? "copy changed the source" : "source changed the copy"));
  cbor_decref(&victim);
  if (victim != nullptr) return fail("releasing one tree did not free it");
  if (ser(other) != src_bytes) return fail(std::string("releasing the ") + (mutate_copy ? "copy changed the source" : "source changed the copy"));
  obs::Observation oo = obs::observe(other);
  if (!shape_equal(o.ast, oo.ast, &why)) return fail("surviving tree changed shape at " + why);
  cbor_decref(&other);
  if (va::g.live_blocks) { r.ok = false; r.msg = "blocks left allocated after releasing source and copy"; va::release_all(); }
  if (va::g.double_free || va::g.foreign_free) { r.ok = false; r.msg = "double or foreign free"; }
  return r;
}

static Result run_case(const std::string& prop, const Case& c0) {
  Case mapped;
  if (c0.campaign == "FUZZ") {   // fuzz input: first byte selects program / decoder-made tree and the C11 variant
    if (c0.data.empty()) { Result r; r.skipped = true; return r; }
    mapped.campaign = (c0.data[0] & 2) ? "DEC" : "PROG"; mapped.aux[0] = c0.data[0] & 1; mapped.data.assign(c0.data.begin() + 1, c0.data.end());
  }
  const Case& c = mapped.campaign.empty() ? c0 : mapped;
  if (prop == "C03") return judge_C03(c);
  if (prop == "C07") return c.campaign == "ENCN" ? judge_C07_enc((int)c.aux[0], c.aux[1]) : judge_C07_tree(c);
  if (prop == "C11") return judge_C11(c);
  Result r; r.ok = false; r.msg = "unknown property for drv_tree"; return r;
}

// ------------------------------------------------------------------------------ campaigns
static void camp_DEC(Ctx& ctx, int max_nodes) {
  Case c; c.campaign = "DEC"; uint64_t idx = 0;
  bool complete = true;
  gen::E2* ep = nullptr;
  gen::E2 e(gen::leaves_full(), [&](const gen::Bytes& b, int) {
    uint64_t i = idx++;
    if (!ctx.mine(i)) return;
    c.data = b; for (uint64_t v = 0; v < (ctx.prop == "C11" ? 2u : 1u); v++) { c.aux[0] = v; ctx.exec(c); }
    if (ctx.stop() || ((i & 0xfff) == 0 && ctx.out_of_time())) { complete = false; ep->stop = true; }
  });
  ep = &e; e.run(max_nodes);
  gen::pairwise([&](const gen::Bytes& b) { if (ctx.mine(idx++) && !ctx.stop()) { c.data = b; c.aux[0] = 0; ctx.exec(c); } });
  ctx.campaign_exhaustive["DEC"] = complete;
  ctx.notes["DEC"] = "trees returned by cbor_load for every E2 encoding with <= " + std::to_string(max_nodes) + " nodes and every E2p encoding";
}
static void camp_PROG(Ctx& ctx, uint64_t nrand) {
  Case c; c.campaign = "PROG"; uint64_t idx = 0;
  unsigned variants = ctx.prop == "C11" ? 2 : 1;
  // every program of one or two bytes
  for (unsigned a = 0; a < 256; a++) { if (ctx.mine(idx++)) { c.data = {(uint8_t)a}; for (unsigned v = 0; v < variants; v++) { c.aux[0] = v; ctx.exec(c); } } }
  for (unsigned a = 0; a < 65536 && !ctx.stop(); a++) { if (ctx.mine(idx++)) { c.data = {(uint8_t)(a >> 8), (uint8_t)a}; for (unsigned v = 0; v < variants; v++) { c.aux[0] = v; ctx.exec(c); } } }
  // seeded programs: op bytes biased towards containers so that trees get deep and wide
  for (uint64_t i = 0; i < nrand && !ctx.stop(); i++) {
    if (!ctx.mine(idx++)) continue;
    size_t len = 2 + (size_t)(vh::prand(ctx.seed, 51, i) % 48);
    c.data.resize(len);
    for (size_t k = 0; k < len; k++) {
      uint64_t x = vh::prand(ctx.seed, 52, i * 64 + k);
      uint8_t b = (uint8_t)x;
      if ((x >> 8) % 3 == 0) { int op = tp::OP_ARR_DEF + (int)((x >> 16) % 9); int p = (int)((x >> 24) % 10); b = (uint8_t)(op + tp::OP_COUNT * p); }
      c.data[k] = b;
    }
    c.aux[0] = i & 1;
    ctx.exec(c);
    if ((i & 0x3ff) == 0 && ctx.out_of_time()) break;
  }
  ctx.distinct_by_construction = false;
  ctx.notes["PROG"] = "construction programs (src/drv/treeprog.hpp: every cbor_new_*/cbor_build_*, all widths, boundary values 0,23,24,255,256,65535,65536,2^32-1,2^32,2^64-1, NaN/inf/subnormal floats, handle-less / empty / multi-chunk strings, partially filled definite containers, shared sub-items, tags of every head width): all 1- and 2-byte programs, plus seeded programs of 2..49 bytes";
}
static void camp_DEEP(Ctx& ctx) {
  Case c; c.campaign = "DEEP"; uint64_t idx = 0;
  size_t L = CBOR_MAX_STACK_SIZE;
  for (size_t depth : {(size_t)2, (size_t)17, L / 2, L - 1, L})
    for (uint64_t kind = 0; kind < 4; kind++) { if (depth < 2 || depth > 5000) continue; if (ctx.mine(idx++) && !ctx.stop()) { c.data.clear(); c.aux[0] = depth; c.aux[1] = kind; ctx.exec(c); } }
  ctx.campaign_exhaustive["DEEP"] = true;
  ctx.notes["DEEP"] = "nests of tags / one-element definite arrays / indefinite maps (value position) / tags around a chunked string, built through the API at depths 2, 17, L/2, L-1 and L = CBOR_MAX_STACK_SIZE";
}
static void camp_WIDE(Ctx& ctx) {
  Case c; c.campaign = "DEC"; uint64_t idx = 0;
  for (auto& x : gen::wide_items(ctx.prop != "C07")) {   // C07 sweeps every buffer size: skip the 64 KiB strings there
    if (!ctx.mine(idx++) || ctx.stop()) continue;
    if (ctx.prop == "C07" && x.size() > 1200) continue;
    c.data = x; for (uint64_t v = 0; v < (ctx.prop == "C11" ? 2u : 1u); v++) { c.aux[0] = v; ctx.exec(c); }
  }
  ctx.notes["WIDE"] = "decoder-made trees with 22..1000 members / string lengths around every head-width boundary (see gen::wide_items)";
}
static void camp_ENCN(Ctx& ctx) {
  Case c; c.campaign = "ENCN"; uint64_t idx = 0;
  std::vector<uint64_t> vals = {0, 1, 23, 24, 25, 255, 256, 65535, 65536, 0x7fffffffull, 0x80000000ull, 0xffffffffull, 0x100000000ull, 1ull << 63, ~0ull,
                                0x7e00, 0x3c00, 0x7fc00000ull, 0x3f800000ull, 0x7f800001ull, 0x47800000ull /* 65536.0f: not a half */, 0x33800000ull, 0x7ff8000000000000ull, 0x3ff0000000000000ull, 0x7ff0000000000001ull};
  for (uint64_t i = 0; i < 400; i++) vals.push_back(vh::prand(ctx.seed, 77, i) >> (vh::prand(ctx.seed, 78, i) % 64));
  for (int e = 0; e < EN_COUNT; e++) for (uint64_t v : vals) { if (ctx.mine(idx++) && !ctx.stop()) { c.aux[0] = (uint64_t)e; c.aux[1] = v; ctx.exec(c); } }
  for (int e : {EN_UINT8, EN_NEGINT8, EN_CTRL, EN_UINT, EN_TAG}) for (uint64_t v = 0; v < 256; v++) { if (ctx.mine(idx++) && !ctx.stop()) { c.aux[0] = (uint64_t)e; c.aux[1] = v; ctx.exec(c); } }
  ctx.distinct_by_construction = false;
  ctx.notes["ENCN"] = "every cbor_encode_* x {boundary values, NaNs, non-half floats, 400 seeded values} (and all 256 values for the 8-bit / generic encoders) x every buffer size 0..10";
}

static void run_campaigns(Ctx& ctx) {
  bool thorough = ctx.tier == "thorough";
  auto want = [&](const char* n) { return ctx.campaign_filter.empty() || ctx.campaign_filter == n; };
  if (ctx.prop == "C07" && want("ENCN")) camp_ENCN(ctx);
  if (want("DEEP")) camp_DEEP(ctx);
  if (want("WIDE")) camp_WIDE(ctx);
  if (want("DEC")) camp_DEC(ctx, thorough ? 3 : 2);
  if (want("PROG")) camp_PROG(ctx, thorough ? 6000000 : 600000);
}

static void driver_init() {
  cbor_set_allocs(va::vmalloc, va::vrealloc, va::vfree);
  tp::allow_unassigned_simple = true;
  va::g.single_cap = (size_t)1 << 24;
}
static const char* kDriverName = "drv_tree";
#ifndef VH_FUZZ_TARGET
int main(int argc, char** argv) {
  driver_init();
  vh::Driver drv{kDriverName, run_campaigns, run_case};
  return vh::driver_main(argc, argv, drv);
}
#endif
