// drv_fault — decides C06: exhaustive single-fault and fail-stop allocation schedules.
// A case is one (scenario, k, mode) triple:
//   campaign  LOAD   cbor_load(data)
//             COPY   cbor_copy(tree)            tree = load(data) if aux[3]==0, tp::build(data) if aux[3]==1
//             SERA   cbor_serialize_alloc(tree)
//             BUILD  one cbor_new_* / cbor_build_* call            aux[2] = builder id
//             GROW   push / set / map_add / add_chunk on a container holding aux[2]>>8 entries; aux[2]&255 = container kind
//             PROGF  a whole construction program under faults (leak / crash freedom only)
//   aux[0] = k (index of the refused request, counted from the start of the operation)
//   aux[1] = mode: 0 refuse request k only, 1 refuse every request from k on
// The campaign generator first runs each scenario fault-free to count its N requests and then
// emits all 2N schedules.
#include <cstdio>
#include <cstdlib>
#include <cstring>
#include <string>
#include "cbor.h"
#include "common/harness.hpp"
#include "alloc/valloc.hpp"
#include "ref/refcbor.hpp"
#include "obs/observe.hpp"
#include "gen/enum.hpp"
#include "drv/treeprog.hpp"

using vh::Case; using vh::Result; using vh::Ctx;

static void arm(uint64_t k, uint64_t mode) { va::g.requests = 0; va::g.refused_fault = 0; if (mode == 0) va::g.fail_at = (int64_t)k; else va::g.fail_from = (int64_t)k; }
static void disarm() { va::reset_faults(); }
static const uint64_t NOFAULT = ~0ull;

static cbor_item_t* make_arg_tree(const Case& c) {
  if (c.aux[3] == 0) { struct cbor_load_result r; return cbor_load(c.data.data(), c.data.size(), &r); }
  tp::Built b; if (!tp::build(c.data.data(), c.data.size(), b)) return nullptr; return b.item;
}

// ---- builders ----------------------------------------------------------------------------
enum { B_INT8, B_INT16, B_INT32, B_INT64, B_UINT8, B_UINT16, B_UINT32, B_UINT64, B_NEG8, B_NEG16, B_NEG32, B_NEG64,
       B_DEFBSTR, B_INDEFBSTR, B_BUILDBSTR0, B_BUILDBSTR9, B_DEFTSTR, B_INDEFTSTR, B_BUILDSTR, B_BUILDSTRN0, B_BUILDSTRN9,
       B_DEFARR0, B_DEFARR5, B_INDEFARR, B_DEFMAP0, B_DEFMAP5, B_INDEFMAP, B_TAG, B_BUILDTAG,
       B_CTRL, B_F2, B_F4, B_F8, B_NULL, B_UNDEF, B_BOOL, B_BF2, B_BF4, B_BF8, B_BCTRL, B_COUNT };
static const char* builder_name(int b) {
  static const char* n[] = {"new_int8", "new_int16", "new_int32", "new_int64", "build_uint8", "build_uint16", "build_uint32", "build_uint64", "build_negint8", "build_negint16",
                            "build_negint32", "build_negint64", "new_definite_bytestring", "new_indefinite_bytestring", "build_bytestring(0)", "build_bytestring(9)",
                            "new_definite_string", "new_indefinite_string", "build_string", "build_stringn(0)", "build_stringn(9)", "new_definite_array(0)", "new_definite_array(5)",
                            "new_indefinite_array", "new_definite_map(0)", "new_definite_map(5)", "new_indefinite_map", "new_tag", "build_tag", "new_ctrl", "new_float2", "new_float4",
                            "new_float8", "new_null", "new_undef", "build_bool", "build_float2", "build_float4", "build_float8", "build_ctrl"};
  return b < B_COUNT ? n[b] : "?";
}
static cbor_item_t* call_builder(int b, cbor_item_t* arg) {
  static const unsigned char nine[] = "ninebytes";
  switch (b) {
    case B_INT8: return cbor_new_int8(); case B_INT16: return cbor_new_int16(); case B_INT32: return cbor_new_int32(); case B_INT64: return cbor_new_int64();
    case B_UINT8: return cbor_build_uint8(7); case B_UINT16: return cbor_build_uint16(700); case B_UINT32: return cbor_build_uint32(70000); case B_UINT64: return cbor_build_uint64(1ull << 40);
    case B_NEG8: return cbor_build_negint8(7); case B_NEG16: return cbor_build_negint16(700); case B_NEG32: return cbor_build_negint32(70000); case B_NEG64: return cbor_build_negint64(1ull << 40);
    case B_DEFBSTR: return cbor_new_definite_bytestring(); case B_INDEFBSTR: return cbor_new_indefinite_bytestring();
    case B_BUILDBSTR0: return cbor_build_bytestring(nine, 0); case B_BUILDBSTR9: return cbor_build_bytestring(nine, 9);
    case B_DEFTSTR: return cbor_new_definite_string(); case B_INDEFTSTR: return cbor_new_indefinite_string();
    case B_BUILDSTR: return cbor_build_string("ninebytes"); case B_BUILDSTRN0: return cbor_build_stringn("ninebytes", 0); case B_BUILDSTRN9: return cbor_build_stringn("ninebytes", 9);
    case B_DEFARR0: return cbor_new_definite_array(0); case B_DEFARR5: return cbor_new_definite_array(5); case B_INDEFARR: return cbor_new_indefinite_array();
    case B_DEFMAP0: return cbor_new_definite_map(0); case B_DEFMAP5: return cbor_new_definite_map(5); case B_INDEFMAP: return cbor_new_indefinite_map();
    case B_TAG: return cbor_new_tag(42); case B_BUILDTAG: return cbor_build_tag(42, arg);
    case B_CTRL: return cbor_new_ctrl(); case B_F2: return cbor_new_float2(); case B_F4: return cbor_new_float4(); case B_F8: return cbor_new_float8();
    case B_NULL: return cbor_new_null(); case B_UNDEF: return cbor_new_undef(); case B_BOOL: return cbor_build_bool(true);
    case B_BF2: return cbor_build_float2(1.5f); case B_BF4: return cbor_build_float4(1.25f); case B_BF8: return cbor_build_float8(-0.5); case B_BCTRL: return cbor_build_ctrl(22);
  }
  return nullptr;
}

// ---- growth --------------------------------------------------------------------------------
enum { G_DEFARR_PUSH, G_DEFARR_SET, G_INDEFARR_PUSH, G_INDEFARR_SET, G_DEFMAP_ADD, G_INDEFMAP_ADD, G_BSTR_CHUNK, G_TSTR_CHUNK, G_COUNT };
static const char* grow_name(int g) { static const char* n[] = {"definite array push", "definite array set(size)", "indefinite array push", "indefinite array set(size)", "definite map add", "indefinite map add", "bytestring add_chunk", "string add_chunk"}; return g < G_COUNT ? n[g] : "?"; }
static cbor_item_t* grow_container(int g, size_t s) {
  cbor_item_t* c = nullptr;
  switch (g) {
    case G_DEFARR_PUSH: case G_DEFARR_SET: c = cbor_new_definite_array(s + 1); break;
    case G_INDEFARR_PUSH: case G_INDEFARR_SET: c = cbor_new_indefinite_array(); break;
    case G_DEFMAP_ADD: c = cbor_new_definite_map(s + 1); break;
    case G_INDEFMAP_ADD: c = cbor_new_indefinite_map(); break;
    case G_BSTR_CHUNK: c = cbor_new_indefinite_bytestring(); break;
    case G_TSTR_CHUNK: c = cbor_new_indefinite_string(); break;
  }
  if (!c) return nullptr;
  for (size_t i = 0; i < s; i++) {
    bool ok = false;
    if (g <= G_INDEFARR_SET) { cbor_item_t* x = cbor_build_uint8((uint8_t)i); ok = x && cbor_array_push(c, x); if (x) cbor_decref(&x); }
    else if (g <= G_INDEFMAP_ADD) { cbor_item_t* k = cbor_build_uint8((uint8_t)i); cbor_item_t* v = cbor_build_uint8(1); struct cbor_pair p{k, v}; ok = k && v && cbor_map_add(c, p); if (k) cbor_decref(&k); if (v) cbor_decref(&v); }
    else if (g == G_BSTR_CHUNK) { cbor_item_t* x = cbor_build_bytestring((cbor_data) "ab", 2); ok = x && cbor_bytestring_add_chunk(c, x); if (x) cbor_decref(&x); }
    else { cbor_item_t* x = cbor_build_string("ab"); ok = x && cbor_string_add_chunk(c, x); if (x) cbor_decref(&x); }
    if (!ok) { cbor_decref(&c); return nullptr; }
  }
  return c;
}
static bool grow_op(int g, cbor_item_t* c, cbor_item_t* a, cbor_item_t* b) {
  switch (g) {
    case G_DEFARR_PUSH: case G_INDEFARR_PUSH: return cbor_array_push(c, a);
    case G_DEFARR_SET: case G_INDEFARR_SET: return cbor_array_set(c, cbor_array_size(c), a);
    case G_DEFMAP_ADD: case G_INDEFMAP_ADD: { struct cbor_pair p{a, b}; return cbor_map_add(c, p); }
    case G_BSTR_CHUNK: return cbor_bytestring_add_chunk(c, a);
    default: return cbor_string_add_chunk(c, a);
  }
}

// ---- the MEMERROR position oracle for cbor_load -------------------------------------------
// Request k of the fault-free run belongs to the i-th head if R(i-1) <= k < R(i), where R(i) is the
// number of requests cbor_load makes on the prefix that ends just past head i.  (Public behaviour
// only: decoding is sequential, so the prefix run makes exactly the allocations of heads 1..i.)
static size_t expected_mem_position(const Case& c, uint64_t k) {
  ref::TokStream t = ref::tokenise(c.data.data(), c.data.size());
  for (auto& h : t.heads) {
    size_t q = h.off + (size_t)h.total;
    va::g.requests = 0;
    struct cbor_load_result r; cbor_item_t* it = cbor_load(c.data.data(), q, &r);
    uint64_t R = va::g.requests;
    if (it) cbor_decref(&it);
    if (k < R) return q;
  }
  return (size_t)-1;
}

// Runs the scenario of case c with fault (k, mode); k == NOFAULT means fault-free.  Returns the
// number of allocator requests the operation made in *nreq.
static Result run_scenario(const Case& c, uint64_t k, uint64_t mode, uint64_t* nreq) {
  Result r; r.klass = c.campaign.c_str();
  va::reset_counters(); disarm();
  auto fail = [&](const std::string& m) { disarm(); r.ok = false; r.msg = m; va::release_all(); return r; };
  bool faulty = k != NOFAULT;
  const char* why = "";
  if (c.campaign == "LOAD") {
    size_t want_pos = faulty ? expected_mem_position(c, k) : 0;
    if (va::g.live_blocks) return fail("leak while measuring prefixes");
    uint8_t* in = (uint8_t*)malloc(c.data.size()); memcpy(in, c.data.data(), c.data.size());
    struct cbor_load_result res; memset(&res, 0x5a, sizeof res);
    if (faulty) arm(k, mode); else va::g.requests = 0;
    cbor_item_t* it = cbor_load(in, c.data.size(), &res);
    uint64_t refused = va::g.refused_fault; *nreq = va::g.requests;
    disarm(); free(in);
    if (refused) {
      if (it) { cbor_decref(&it); return fail("cbor_load returned an item although an allocation was refused"); }
      if (res.error.code != CBOR_ERR_MEMERROR) return fail(std::string("allocation refused but error code is ") + ref::code_name(res.error.code));
      if (res.error.position != want_pos) return fail("MEMERROR position " + std::to_string(res.error.position) + ", the refused request belongs to the head ending at " + std::to_string(want_pos));
      if (va::g.live_blocks) return fail(std::to_string(va::g.live_blocks) + " block(s) left allocated after the failed cbor_load");
    } else {
      if (!it) return fail("cbor_load failed although no allocation was refused");
      cbor_decref(&it);
      if (va::g.live_blocks) return fail("leak after releasing the loaded tree");
    }
    r.nontrivial = faulty && k > 0;
    return r;
  }
  if (c.campaign == "COPY" || c.campaign == "SERA") {
    cbor_item_t* t = make_arg_tree(c);
    if (!t) return fail("harness: could not build the argument tree");
    va::Snapshot snap = va::snapshot();
    if (faulty) arm(k, mode); else va::g.requests = 0;
    bool failed; cbor_item_t* cp = nullptr; unsigned char* buf = nullptr; size_t blen = 777, ret = 0;
    if (c.campaign == "COPY") { cp = cbor_copy(t); failed = cp == nullptr; }
    else { ret = cbor_serialize_alloc(t, &buf, &blen); failed = ret == 0; }
    uint64_t refused = va::g.refused_fault; *nreq = va::g.requests;
    disarm();
    if (refused) {
      if (!failed) { if (cp) cbor_decref(&cp); if (buf) va::vfree(buf); cbor_decref(&t); return fail(c.campaign + ": an allocation was refused but the call reported success"); }
      if (c.campaign == "SERA" && (buf != nullptr || blen != 0)) { cbor_decref(&t); return fail("cbor_serialize_alloc failed but left *buffer / *buffer_size set"); }
      if (!va::same_as(snap, &why)) { return fail(c.campaign + " failed but " + why); }
    } else {
      if (failed) { cbor_decref(&t); return fail(c.campaign + " failed although no allocation was refused"); }
      if (cp) cbor_decref(&cp);
      if (buf) va::vfree(buf);
      if (!va::same_as(snap, &why)) return fail(c.campaign + " succeeded, result released, but " + why);
    }
    cbor_decref(&t);
    if (va::g.live_blocks) return fail("blocks left allocated after releasing the argument tree");
    r.nontrivial = faulty && k > 0;
    return r;
  }
  if (c.campaign == "BUILD") {
    int b = (int)c.aux[2];
    cbor_item_t* arg = b == B_BUILDTAG ? cbor_build_uint8(1) : nullptr;
    va::Snapshot snap = va::snapshot();
    if (faulty) arm(k, mode); else va::g.requests = 0;
    cbor_item_t* it = call_builder(b, arg);
    uint64_t refused = va::g.refused_fault; *nreq = va::g.requests;
    disarm();
    if (refused) {
      if (it) { return fail(std::string("cbor_") + builder_name(b) + " returned an item although an allocation was refused"); }
      if (!va::same_as(snap, &why)) return fail(std::string("cbor_") + builder_name(b) + " failed but " + why);
    } else {
      if (!it) return fail(std::string("cbor_") + builder_name(b) + " returned NULL although no allocation was refused");
      if (cbor_refcount(it) != 1) return fail("fresh item does not have reference count 1");
      cbor_decref(&it);
      if (!va::same_as(snap, &why)) return fail(std::string("cbor_") + builder_name(b) + ": item released but " + why);
    }
    if (arg) cbor_decref(&arg);
    if (va::g.live_blocks) return fail("blocks left allocated");
    r.nontrivial = faulty && (k > 0 || mode == 1);
    return r;
  }
  if (c.campaign == "GROW") {
    int g = (int)(c.aux[2] & 255); size_t s = (size_t)(c.aux[2] >> 8);
    cbor_item_t* cont = grow_container(g, s);
    cbor_item_t* a = (g == G_BSTR_CHUNK) ? cbor_build_bytestring((cbor_data) "xy", 2) : (g == G_TSTR_CHUNK) ? cbor_build_string("xy") : cbor_build_uint16(4242);
    cbor_item_t* b = cbor_build_uint8(9);
    if (!cont || !a || !b) return fail("harness: setup failed");
    va::Snapshot snap = va::snapshot();
    if (faulty) arm(k, mode); else va::g.requests = 0;
    bool ok = grow_op(g, cont, a, b);
    uint64_t refused = va::g.refused_fault; *nreq = va::g.requests;
    disarm();
    if (refused) {
      if (ok) return fail(std::string(grow_name(g)) + " at size " + std::to_string(s) + ": allocation refused but the call returned true");
      if (!va::same_as(snap, &why)) return fail(std::string(grow_name(g)) + " at size " + std::to_string(s) + " failed but " + why);
    } else if (!ok) return fail(std::string(grow_name(g)) + " at size " + std::to_string(s) + " returned false although nothing was refused");
    cbor_decref(&cont); cbor_decref(&a); cbor_decref(&b);
    if (va::g.live_blocks) return fail("blocks left allocated after releasing container and arguments");
    r.nontrivial = faulty;
    return r;
  }
  if (c.campaign == "PROGF") {
    if (faulty) arm(k, mode); else va::g.requests = 0;
    tp::Built b; bool ok = tp::build(c.data.data(), c.data.size(), b);
    uint64_t refused = va::g.refused_fault; *nreq = va::g.requests;
    disarm();
    if (!refused && !ok) return fail("construction program failed although no allocation was refused");
    if (ok) cbor_decref(&b.item);
    if (va::g.live_blocks) return fail(std::to_string(va::g.live_blocks) + " block(s) left allocated after a construction program whose request " + std::to_string(k) + " was refused");
    if (va::g.double_free || va::g.foreign_free) return fail("double / foreign free");
    r.nontrivial = faulty && k > 0;
    return r;
  }
  r.ok = false; r.msg = "unknown campaign"; return r;
}

static Result run_case(const std::string& prop, const Case& c0) {
  uint64_t n = 0;
  if (prop != "C06") { Result r; r.ok = false; r.msg = "drv_fault serves C06 only"; return r; }
  if (c0.campaign == "FUZZ") {
    // fuzz input: byte 0 = scenario (LOAD / COPY / SERA on decoded bytes, COPY / SERA / PROGF on a construction program),
    // byte 1 = index of the refused request, byte 2 bit 0 = fail-stop mode; the rest is the input / program
    if (c0.data.size() < 4) { Result r; r.skipped = true; return r; }
    static const char* camps[] = {"LOAD", "COPY", "SERA", "COPY", "SERA", "PROGF"};
    Case c; unsigned sel = c0.data[0] % 6; c.campaign = camps[sel]; c.aux[3] = sel >= 3 ? 1 : 0; c.aux[0] = c0.data[1] % 64; c.aux[1] = c0.data[2] & 1;
    c.data.assign(c0.data.begin() + 3, c0.data.end());
    // the scenario must be valid fault-free (a loadable input / a buildable program); otherwise it is outside the domain
    Result base = run_scenario(c, NOFAULT, 0, &n);
    if (!base.ok) { Result r; r.skipped = true; return r; }
    if (c.aux[0] >= n) { Result r; r.skipped = true; return r; }
    return run_scenario(c, c.aux[0], c.aux[1], &n);
  }
  return run_scenario(c0, c0.aux[0], c0.aux[1], &n);
}

// ------------------------------------------------------------------------------ campaigns
static void all_schedules(Ctx& ctx, Case& c) {
  uint64_t N = 0;
  c.aux[0] = NOFAULT; c.aux[1] = 0;
  ctx.journal.set(c, 0);   // a crash in the fault-free run is attributed to this scenario
  Result base = run_scenario(c, NOFAULT, 0, &N);
  ctx.journal.clear();
  vh::counters["scenarios"]++;
  if (!base.ok) { c.aux[0] = NOFAULT; c.aux[1] = 0; ctx.exec(c); return; }  // report the fault-free failure as a case
  vh::counters["requests_in_fault_free_runs"] += N;
  for (uint64_t mode = 0; mode < 2; mode++)
    for (uint64_t k = 0; k < N; k++) { c.aux[0] = k; c.aux[1] = mode; ctx.exec(c); if (ctx.stop()) return; }
}

static void run_campaigns(Ctx& ctx) {
  bool thorough = ctx.tier == "thorough";
  Case c; uint64_t idx = 0;
  // builders
  c.campaign = "BUILD"; c.data.clear();
  for (int b = 0; b < B_COUNT; b++) { if (ctx.mine(idx++)) { memset(c.aux, 0, sizeof c.aux); c.aux[2] = (uint64_t)b; all_schedules(ctx, c); } }
  // growth steps 0..64 (thorough: 0..300)
  c.campaign = "GROW";
  for (int g = 0; g < G_COUNT; g++) for (size_t s = 0; s <= (thorough ? 300u : 64u); s++) { if (ctx.mine(idx++)) { memset(c.aux, 0, sizeof c.aux); c.aux[2] = (uint64_t)g | ((uint64_t)s << 8); all_schedules(ctx, c); } if (ctx.stop()) return; }
  // decoder inputs: LOAD, and COPY / SERA of the decoded trees
  std::vector<gen::Bytes> inputs;
  { gen::E2 e(gen::leaves_full(), [&](const gen::Bytes& b, int) { inputs.push_back(b); }); e.run(thorough ? 3 : 2); }
  gen::pairwise([&](const gen::Bytes& b) { inputs.push_back(b); });
  for (auto& in : inputs) {
    if (!ctx.mine(idx++)) continue;
    for (const char* camp : {"LOAD", "COPY", "SERA"}) { c.campaign = camp; c.data = in; memset(c.aux, 0, sizeof c.aux); all_schedules(ctx, c); if (ctx.stop()) return; }
    if ((idx & 0xff) == 0 && ctx.out_of_time()) return;
  }
  // wide inputs (members around the head-width boundaries): many growth steps inside one decode / copy
  { uint64_t wi = 0;
    for (auto& in : gen::wide_items(false)) {
      if (in.size() > (thorough ? 1300u : 600u)) continue;
      if ((wi++ % (thorough ? 1 : 3)) != 0 || !ctx.mine(idx++)) continue;
      for (const char* camp : {"LOAD", "COPY", "SERA"}) { c.campaign = camp; c.data = in; memset(c.aux, 0, sizeof c.aux); all_schedules(ctx, c); if (ctx.stop()) return; }
    } }
  // API-made trees: all one-byte programs and seeded longer ones: COPY, SERA and the construction itself
  auto prog = [&](const gen::Bytes& p) {
    for (const char* camp : {"COPY", "SERA", "PROGF"}) { c.campaign = camp; c.data = p; memset(c.aux, 0, sizeof c.aux); c.aux[3] = 1; all_schedules(ctx, c); if (ctx.stop()) return; }
  };
  for (unsigned a = 0; a < 256; a++) if (ctx.mine(idx++)) prog({(uint8_t)a});
  uint64_t nrand = thorough ? 200000 : 12000;
  for (uint64_t i = 0; i < nrand && !ctx.stop(); i++) {
    if (!ctx.mine(idx++)) continue;
    size_t len = 2 + (size_t)(vh::prand(ctx.seed, 61, i) % 30);
    gen::Bytes p(len);
    for (size_t k = 0; k < len; k++) { uint64_t x = vh::prand(ctx.seed, 62, i * 64 + k); uint8_t b = (uint8_t)x; if ((x >> 8) % 3 == 0) b = (uint8_t)(tp::OP_ARR_DEF + (int)((x >> 16) % 9) + tp::OP_COUNT * (int)((x >> 24) % 10)); p[k] = b; }
    prog(p);
    if ((i & 0xff) == 0 && ctx.out_of_time()) break;
  }
  // larger decoder inputs (thorough): seeded concatenations wrapped in an indefinite array
  if (thorough) {
    for (uint64_t i = 0; i < 20000 && !ctx.stop(); i++) {
      if (!ctx.mine(idx++)) continue;
      gen::Bytes in = gen::B({0x9f}); int kk = 3 + (int)(vh::prand(ctx.seed, 63, i) % 12);
      for (int j = 0; j < kk; j++) { const gen::Bytes& x = inputs[vh::prand(ctx.seed, 64, i * 16 + (uint64_t)j) % inputs.size()]; in.insert(in.end(), x.begin(), x.end()); }
      in.push_back(0xff);
      for (const char* camp : {"LOAD", "COPY"}) { c.campaign = camp; c.data = in; memset(c.aux, 0, sizeof c.aux); all_schedules(ctx, c); }
      if ((i & 0x3f) == 0 && ctx.out_of_time()) break;
    }
  }
  for (const char* k : {"BUILD", "GROW", "LOAD", "COPY", "SERA", "PROGF"}) ctx.campaign_exhaustive[k] = !ctx.inconclusive;
  ctx.notes["schedules"] = "for every scenario the N allocator requests of a fault-free run are counted, then all N single-fault schedules (refuse request k) and all N fail-stop schedules (refuse every request from k on) are run: exhaustive per scenario";
  ctx.notes["scenarios"] = std::string("BUILD: every cbor_new_*/cbor_build_* (") + std::to_string((int)B_COUNT) + " builders); GROW: push / set(size) / map_add / add_chunk on definite and indefinite containers holding 0.." + (thorough ? "300" : "64") +
                           " entries; LOAD/COPY/SERA: every E2 encoding with <= " + (thorough ? "3" : "2") + " nodes and every E2p encoding; COPY/SERA/PROGF: API-made trees from all 1-byte and seeded construction programs (negative ints of every width, tags, shared nodes, chunked strings)";
}

static void driver_init() {
  cbor_set_allocs(va::vmalloc, va::vrealloc, va::vfree);
  tp::allow_unassigned_simple = true;
  va::g.single_cap = (size_t)1 << 24;
}
static const char* kDriverName = "drv_fault";
#ifndef VH_FUZZ_TARGET
int main(int argc, char** argv) {
  driver_init();
  vh::Driver drv{kDriverName, run_campaigns, run_case};
  return vh::driver_main(argc, argv, drv);
}
#endif
