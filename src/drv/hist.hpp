// History interpreter with a shadow ownership graph (C04, C12, C13).
// A program is a byte string read as 4-byte op records (opcode, a, b, c).  Operands are reduced
// modulo the pool / candidate lists, so every program is executable.  The client holds references
// in a pool of slots; the model keeps, per item, the number of client references and the
// container edges, so the expected reference count is client + incoming edges at every step.
#pragma once
#include <cstring>
#include <functional>
#include <map>
#include <set>
#include <string>
#include <vector>
#include "cbor.h"
#include "ref/refcbor.hpp"
#include "obs/observe.hpp"
#include "alloc/valloc.hpp"
#include "alloc/arena.hpp"
#include "drv/treeprog.hpp"

namespace hist {

static const int P = 10;  // client slots

enum Op { H_NEW, H_NEWTREE, H_LOAD, H_COPY, H_INCREF, H_DECREF, H_IDECREF, H_PUSH, H_PUSH_MOVE, H_SET, H_REPLACE, H_GET, H_MAP_ADD, H_ADD_CHUNK,
          H_TAG_SET, H_TAG_GET, H_TAG_BUILD, H_SERIALIZE, H_SIZE, H_DESCRIBE, H_BORROW, H_RESET_HANDLE, H_MAP_ADD_MOVE, H_CHUNK_MOVE, H_TAG_SET_MOVE, H_FAULT_NEXT, H_COUNT };
static inline const char* op_name(int o) {
  static const char* n[] = {"new", "newtree", "load", "copy", "incref", "decref", "intermediate_decref", "push", "push_move", "set", "replace", "get", "map_add", "add_chunk",
                            "tag_set", "tag_get", "tag_build", "serialize", "size", "describe", "borrow", "reset_handle", "map_add_move", "add_chunk_move", "tag_set_move", "fault_next"};
  return o < H_COUNT ? n[o] : "?";
}

struct MNode {
  cbor_item_t* item = nullptr;
  uint64_t serial = 0;
  int type = 0; bool indef = false; size_t cap = 0;
  long client = 0, in = 0;
  std::vector<int> out;     // children in order (map: key, value, ...)
  bool alive = true;
  bool client_handle = false;   // definite string whose payload block was attached by the client with *_set_handle
  ref::Node leaf;           // leaves: full AST; containers: type / indef / tag value
};

struct Finding { std::string prop, msg; };

struct Interp {
  bool use_va = true;          // liveness tracking needs the tagging allocator's free log
  bool check_lists = true;     // C12 predictions
  FILE* devnull = nullptr;
  std::vector<MNode> nodes;
  int slot[P];
  std::vector<Finding> findings;
  std::vector<int> died;       // nodes that died in the current step
  // statistics
  size_t steps = 0, effective = 0, failed_loads = 0, max_owners = 0, boundary_hits = 0, reallocs_seen = 0;
  bool shared_seen = false, container_died_child_survived = false, child_died_container_survived = false, multi_block_release = false;
  std::string trace;           // "op(args)->result;" for the failure message
  std::string stop_prop;       // stop interpreting at the first finding for this property
  int pending_fault = 0;       // >0: the next op runs with its k-th allocator request refused (tagging allocator only)
  bool op_refused = false;     // the allocator refused a request during the current op
  size_t faulted_ops = 0;

  Interp() { for (int i = 0; i < P; i++) slot[i] = -1; }

  bool refused_now() const { return use_va && va::g.refused_fault > 0; }
  void flag(const char* prop, const std::string& m) { if (findings.size() < 4) findings.push_back({prop, m + "  [after: " + trace.substr(trace.size() > 300 ? trace.size() - 300 : 0) + "]"}); }
  bool failed_for(const std::string& prop) const { for (auto& f : findings) if (f.prop == prop) return true; return false; }

  // ---- libcbor call wrappers: mark "inside the library" for the bypass hooks -------------------
#define LC(expr) ([&]() { ar::InLib _g; return (expr); }())
#define LCV(stmt) do { ar::InLib _g; stmt; } while (0)

  int free_slot() const { for (int i = 0; i < P; i++) if (slot[i] < 0) return i; return -1; }
  int pick_slot(uint8_t a) const {  // a non-empty slot, or -1
    for (int k = 0; k < P; k++) { int i = (a + k) % P; if (slot[i] >= 0) return i; }
    return -1;
  }
  int pick_typed(uint8_t a, const std::function<bool(const MNode&)>& pred) const {
    for (int k = 0; k < P; k++) { int i = (a + k) % P; if (slot[i] >= 0 && pred(nodes[slot[i]])) return i; }
    return -1;
  }
  bool reaches(int from, int to) const {
    if (from == to) return true;
    for (int c : nodes[from].out) if (reaches(c, to)) return true;
    return false;
  }
  bool complete(int id) const {  // every tag below has an item
    const MNode& n = nodes[id];
    if (n.type == 6 && n.out.empty()) return false;
    for (int c : n.out) if (!complete(c)) return false;
    return true;
  }
  ref::Node ast_of(int id) const {
    const MNode& n = nodes[id];
    if (n.out.empty() && !(n.type == 4 || n.type == 5 || n.type == 6 || ((n.type == 2 || n.type == 3) && n.indef))) return n.leaf;
    ref::Node r; r.type = n.type; r.indef = n.indef; r.value = n.leaf.value;
    for (int c : n.out) r.kids.push_back(ast_of(c));
    return r;
  }

  int add_node(cbor_item_t* it, int type, bool indef, size_t cap, const ref::Node& leaf) {
    MNode n; n.item = it; n.type = type; n.indef = indef; n.cap = cap; n.leaf = leaf;
    n.serial = use_va ? va::serial_containing(it) : 0;
    nodes.push_back(n);
    return (int)nodes.size() - 1;
  }

  // Import a real tree into the model through public getters.  Items met twice become one node.
  int import(cbor_item_t* it, std::map<cbor_item_t*, int>& seen) {
    auto f = seen.find(it);
    if (f != seen.end()) { shared_seen = true; return f->second; }
    ref::Node leaf; int id;
    switch (cbor_typeof(it)) {
      case CBOR_TYPE_ARRAY: {
        leaf.type = 4; leaf.indef = cbor_array_is_indefinite(it);
        id = add_node(it, 4, leaf.indef, cbor_array_allocated(it), leaf); seen[it] = id;
        size_t n = cbor_array_size(it);
        for (size_t i = 0; i < n; i++) { int c = import(cbor_array_handle(it)[i], seen); nodes[id].out.push_back(c); nodes[c].in++; }
        break;
      }
      case CBOR_TYPE_MAP: {
        leaf.type = 5; leaf.indef = cbor_map_is_indefinite(it);
        id = add_node(it, 5, leaf.indef, cbor_map_allocated(it), leaf); seen[it] = id;
        size_t n = cbor_map_size(it);
        for (size_t i = 0; i < n; i++) {
          int k = import(cbor_map_handle(it)[i].key, seen); nodes[id].out.push_back(k); nodes[k].in++;
          int v = import(cbor_map_handle(it)[i].value, seen); nodes[id].out.push_back(v); nodes[v].in++;
        }
        break;
      }
      case CBOR_TYPE_TAG: {
        leaf.type = 6; leaf.value = cbor_tag_value(it);
        id = add_node(it, 6, false, 0, leaf); seen[it] = id;
        cbor_item_t* inner = cbor_tag_item(it); cbor_item_t* tmp = inner; cbor_decref(&tmp);
        int c = import(inner, seen); nodes[id].out.push_back(c); nodes[c].in++;
        break;
      }
      case CBOR_TYPE_BYTESTRING: case CBOR_TYPE_STRING: {
        bool bs = cbor_typeof(it) == CBOR_TYPE_BYTESTRING;
        bool indef = bs ? cbor_bytestring_is_indefinite(it) : cbor_string_is_indefinite(it);
        if (indef) {
          leaf.type = bs ? 2 : 3; leaf.indef = true;
          id = add_node(it, leaf.type, true, 0, leaf); seen[it] = id;
          size_t n = bs ? cbor_bytestring_chunk_count(it) : cbor_string_chunk_count(it);
          cbor_item_t** ch = bs ? cbor_bytestring_chunks_handle(it) : cbor_string_chunks_handle(it);
          for (size_t i = 0; i < n; i++) { int c = import(ch[i], seen); nodes[id].out.push_back(c); nodes[c].in++; }
          break;
        }
      }  // definite strings fall through to the leaf case
      // fallthrough
      default: {
        obs::Observation o = obs::observe(it);
        id = add_node(it, o.ast.type, false, 0, o.ast); seen[it] = id;
      }
    }
    return id;
  }

  // ---- model death ---------------------------------------------------------------------------
  void maybe_die(int id) {
    MNode& n = nodes[id];
    if (!n.alive || n.client + n.in > 0) return;
    n.alive = false; died.push_back(id);
    if (n.out.size() + 1 >= 3 || (n.type >= 2 && n.type <= 5)) multi_block_release = true;
    std::vector<int> kids = n.out; nodes[id].out.clear();
    for (int c : kids) { nodes[c].in--; if (nodes[c].client + nodes[c].in > 0) container_died_child_survived = true; maybe_die(c); }
  }
  void drop_client(int s) {
    int id = slot[s]; slot[s] = -1;
    nodes[id].client--;
    if (nodes[id].client + nodes[id].in > 0 && nodes[id].client == 0 && nodes[id].in > 0) child_died_container_survived = false;  // still owned by a container
    maybe_die(id);
  }

  // ---- invariant after every step --------------------------------------------------------------
  void check_invariant(const char* opname) {
    std::set<uint64_t> freed;
    if (use_va) { freed.insert(va::g.freed_serials.begin(), va::g.freed_serials.end()); va::g.freed_serials.clear(); }
    for (int id : died) {
      if (use_va && !freed.count(nodes[id].serial)) flag("C04", std::string(opname) + ": an item whose last reference went away was not released");
    }
    std::set<uint64_t> died_serials; for (int id : died) died_serials.insert(nodes[id].serial);
    for (size_t i = 0; i < nodes.size(); i++) {
      MNode& n = nodes[i];
      if (!n.alive) continue;
      long owners = n.client + n.in;
      if ((size_t)owners > max_owners) max_owners = (size_t)owners;
      if (owners >= 2) shared_seen = true;
      if (use_va && freed.count(n.serial)) { flag("C04", std::string(opname) + ": an item that is still referenced (" + std::to_string(owners) + " reference(s) by the rules) was released"); n.alive = false; continue; }
      size_t rc = cbor_refcount(n.item);
      if ((long)rc != owners) flag("C04", std::string(opname) + ": cbor_refcount = " + std::to_string(rc) + ", the ownership rules give " + std::to_string(owners) + " (client " + std::to_string(n.client) + " + container " + std::to_string(n.in) + ") for a type-" + std::to_string(n.type) + " item");
    }
    died.clear();
  }

  // list-model check of one container's observable contents
  void check_contents(int id, const char* opname) {
    MNode& n = nodes[id];
    if (!n.alive) return;
    cbor_item_t* it = n.item;
    auto bad = [&](const std::string& m) { flag("C12", std::string(opname) + ": " + m); };
    if (n.type == 4) {
      size_t sz = cbor_array_size(it), al = cbor_array_allocated(it);
      if (sz != n.out.size()) { bad("array size " + std::to_string(sz) + ", list model has " + std::to_string(n.out.size())); return; }
      if (sz > al) bad("array size exceeds allocated");
      if (!n.indef && al != n.cap) bad("definite array capacity changed from " + std::to_string(n.cap) + " to " + std::to_string(al));
      for (size_t i = 0; i < sz; i++) if (cbor_array_handle(it)[i] != nodes[n.out[i]].item) { bad("array element " + std::to_string(i) + " is not the item the list model holds"); break; }
    } else if (n.type == 5) {
      size_t sz = cbor_map_size(it), al = cbor_map_allocated(it);
      if (sz * 2 != n.out.size()) { bad("map size " + std::to_string(sz) + ", list model has " + std::to_string(n.out.size() / 2)); return; }
      if (sz > al) bad("map size exceeds allocated");
      if (!n.indef && al != n.cap) bad("definite map capacity changed");
      for (size_t i = 0; i < sz; i++) if (cbor_map_handle(it)[i].key != nodes[n.out[2 * i]].item || cbor_map_handle(it)[i].value != nodes[n.out[2 * i + 1]].item) { bad("map pair " + std::to_string(i) + " differs from the list model"); break; }
    } else if ((n.type == 2 || n.type == 3) && n.indef) {
      size_t cc = n.type == 2 ? cbor_bytestring_chunk_count(it) : cbor_string_chunk_count(it);
      cbor_item_t** ch = n.type == 2 ? cbor_bytestring_chunks_handle(it) : cbor_string_chunks_handle(it);
      if (cc != n.out.size()) { bad("chunk count " + std::to_string(cc) + ", list model has " + std::to_string(n.out.size())); return; }
      for (size_t i = 0; i < cc; i++) if (ch[i] != nodes[n.out[i]].item) { bad("chunk " + std::to_string(i) + " differs from the list model"); break; }
    }
  }

  void note(const std::string& s) { trace += s; trace += ';'; if (trace.size() > 4000) trace.erase(0, 2000); }

  // ---- one op ------------------------------------------------------------------------------------
  void step(uint8_t opb, uint8_t a, uint8_t b, uint8_t c) {
    int op = opb % H_COUNT;
    steps++;
    op_refused = false;
    if (op == H_FAULT_NEXT) { if (use_va) pending_fault = 1 + a % 6; return; }
    // ops that give a client reference away with cbor_move must not run starved: a refused call would lose the reference
    bool armed = pending_fault > 0 && use_va && op != H_PUSH_MOVE && op != H_MAP_ADD_MOVE && op != H_CHUNK_MOVE && op != H_TAG_SET_MOVE;
    if (armed) { va::g.refused_fault = 0; va::g.fail_at = (int64_t)va::g.requests + pending_fault - 1; }
    pending_fault = 0;
    step_inner(op, a, b, c);
    if (armed) { op_refused = va::g.refused_fault > 0; va::g.refused_fault = 0; va::reset_faults(); if (op_refused) faulted_ops++; }
    check_invariant(op_name(op));
  }

  void step_inner(int op, uint8_t a, uint8_t b, uint8_t c) {
    const char* nm = op_name(op);
    uint64_t v = ((uint64_t)a << 16) | ((uint64_t)b << 8) | c;
    switch (op) {
      case H_NEW: {
        int s = free_slot(); if (s < 0) return;
        int kind = a % 22; cbor_item_t* it = nullptr; ref::Node leaf; int type = 0; bool indef = false; size_t cap = 0; bool new_client_handle = false;
        uint64_t val = (uint64_t)b * 0x0101010101010101ULL ^ ((uint64_t)c << 3);
        switch (kind) {
          case 0: it = LC(cbor_build_uint8((uint8_t)val)); leaf.type = 0; leaf.width = 0; leaf.value = (uint8_t)val; break;
          case 1: it = LC(cbor_build_uint16((uint16_t)val)); leaf.type = 0; leaf.width = 1; leaf.value = (uint16_t)val; break;
          case 2: it = LC(cbor_build_uint32((uint32_t)val)); leaf.type = 0; leaf.width = 2; leaf.value = (uint32_t)val; break;
          case 3: it = LC(cbor_build_uint64(val)); leaf.type = 0; leaf.width = 3; leaf.value = val; break;
          case 4: it = LC(cbor_build_negint8((uint8_t)val)); leaf.type = 1; leaf.width = 0; leaf.value = (uint8_t)val; break;
          case 5: it = LC(cbor_build_negint64(val)); leaf.type = 1; leaf.width = 3; leaf.value = val; break;
          case 6: { uint8_t d[4] = {a, b, c, 0x7f}; size_t l = (size_t)(b % 5); leaf.type = 2; leaf.bytes.assign(d, d + l);
                    if (c & 1) { it = LC(cbor_new_definite_bytestring()); if (it) { unsigned char* h = (unsigned char*)LC(_cbor_malloc(l)); if (!h) { LCV(cbor_decref(&it)); it = nullptr; } else { memcpy(h, d, l); LCV(cbor_bytestring_set_handle(it, h, l)); new_client_handle = true; } } }
                    else it = LC(cbor_build_bytestring(d, l));
                    break; }
          case 7: { char d[4] = {(char)('a' + a % 26), (char)('a' + b % 26), (char)('a' + c % 26), 'z'}; size_t l = (size_t)(b % 5); leaf.type = 3; leaf.bytes.assign(d, d + l);
                    if (c & 1) { it = LC(cbor_new_definite_string()); if (it) { unsigned char* h = (unsigned char*)LC(_cbor_malloc(l)); if (!h) { LCV(cbor_decref(&it)); it = nullptr; } else { memcpy(h, d, l); LCV(cbor_string_set_handle(it, h, l)); new_client_handle = true; } } }
                    else it = LC(cbor_build_stringn(d, l));
                    break; }
          case 8: it = LC(cbor_new_indefinite_bytestring()); type = 2; indef = true; leaf.type = 2; leaf.indef = true; break;
          case 9: it = LC(cbor_new_indefinite_string()); type = 3; indef = true; leaf.type = 3; leaf.indef = true; break;
          case 10: case 11: cap = b % 9; it = LC(cbor_new_definite_array(cap)); type = 4; leaf.type = 4; break;
          case 12: case 13: it = LC(cbor_new_indefinite_array()); type = 4; indef = true; leaf.type = 4; leaf.indef = true; break;
          case 14: cap = b % 9; it = LC(cbor_new_definite_map(cap)); type = 5; leaf.type = 5; break;
          case 15: it = LC(cbor_new_indefinite_map()); type = 5; indef = true; leaf.type = 5; leaf.indef = true; break;
          case 16: case 17: it = LC(cbor_new_tag(val)); type = 6; leaf.type = 6; leaf.value = val; break;
          case 18: it = LC(cbor_build_float4(1.5f)); leaf.type = 7; leaf.width = 2; leaf.value = 0x3fc00000u; break;
          case 19: it = LC(cbor_build_float8(-2.0)); leaf.type = 7; leaf.width = 3; leaf.value = 0xc000000000000000ull; break;
          case 20: it = LC(cbor_build_bool(b & 1)); leaf.type = 7; leaf.width = 0; leaf.value = 20 + (b & 1); break;
          default: it = LC(cbor_new_null()); leaf.type = 7; leaf.width = 0; leaf.value = 22; break;
        }
        if (!it) { if (!refused_now()) flag("C04", "builder returned NULL without an allocation being refused"); break; }
        if (leaf.type <= 3 && !indef) type = leaf.type; else if (leaf.type == 7) type = 7;
        int id = add_node(it, type, indef, cap, leaf);
        nodes[id].client = 1; nodes[id].client_handle = new_client_handle; slot[s] = id; effective++;
        note(std::string("new") + std::to_string(kind) + "->s" + std::to_string(s));
        break;
      }
      case H_NEWTREE: case H_LOAD: {
        int s = free_slot(); if (s < 0) return;
        uint8_t prog[6] = {a, b, c, (uint8_t)(a ^ 0x5a), (uint8_t)(b + 17), (uint8_t)(c * 3)};
        tp::Built t; bool ok;
        ok = tp::build(prog, sizeof prog, t, nullptr, 12);   // (harness containers allocate here, so this window is not bypass-checked)
        if (!ok) { if (!refused_now()) flag("C04", "tree construction failed without an allocation being refused"); break; }
        cbor_item_t* root = t.item;
        if (op == H_LOAD) {
          unsigned char* buf = nullptr; size_t len = 0;
          size_t w = LC(cbor_serialize_alloc(root, &buf, &len));
          LCV(cbor_decref(&root));
          if (!buf) { if (!refused_now()) flag("C04", "serialize_alloc failed"); break; }
          struct cbor_load_result res;
          root = LC(cbor_load(buf, w, &res));
          if ((c & 7) == 5 && w >= 1) {
            // failed decodes belong to the history too: whatever they allocated must be gone when they return (the
            // final balance of the history shows it).  A proper prefix, and an input one level deeper than the limit.
            cbor_item_t* junk = LC(cbor_load(buf, w - 1, &res));
            if (junk) LCV(cbor_decref(&junk));
            std::vector<unsigned char> deep((size_t)CBOR_MAX_STACK_SIZE + 1 + (size_t)(c >> 6), (unsigned char)((c & 8) ? 0x81 : (c & 16) ? 0xc1 : 0x9f));
            deep.push_back(0x00);
            junk = LC(cbor_load(deep.data(), deep.size(), &res));
            if (junk) LCV(cbor_decref(&junk));
            failed_loads += 2;
          }
          LCV(_cbor_free(buf));
          if (!root) { if (!refused_now()) flag("C03", "load of serialized tree failed"); break; }
        }
        std::map<cbor_item_t*, int> seen;
        int id = import(root, seen);
        nodes[id].client = 1; slot[s] = id; effective++;
        note(std::string(op == H_LOAD ? "load" : "newtree") + "->s" + std::to_string(s));
        break;
      }
      case H_COPY: {
        int s = free_slot(); int src = pick_slot(a); if (s < 0 || src < 0 || !complete(slot[src])) return;
        cbor_item_t* cp = LC(cbor_copy(nodes[slot[src]].item));
        if (!cp) { if (!refused_now()) flag("C04", "cbor_copy returned NULL without an allocation being refused"); break; }
        std::map<cbor_item_t*, int> seen;
        int id = import(cp, seen);
        nodes[id].client = 1; slot[s] = id; effective++;
        note("copy(s" + std::to_string(src) + ")->s" + std::to_string(s));
        break;
      }
      case H_INCREF: {
        int s = free_slot(); int src = pick_slot(a); if (s < 0 || src < 0) return;
        cbor_item_t* r = LC(cbor_incref(nodes[slot[src]].item));
        if (r != nodes[slot[src]].item) flag("C04", "cbor_incref did not return its argument");
        nodes[slot[src]].client++; slot[s] = slot[src]; effective++;
        note("incref(s" + std::to_string(src) + ")->s" + std::to_string(s));
        break;
      }
      case H_DECREF: case H_IDECREF: {
        int s = pick_slot(a); if (s < 0) return;
        int id = slot[s]; cbor_item_t* p = nodes[id].item;
        bool last = nodes[id].client + nodes[id].in == 1;
        if (op == H_DECREF) { LCV(cbor_decref(&p)); if (last && p != nullptr) flag("C04", "cbor_decref released the item but did not clear the caller's pointer"); if (!last && p == nullptr) flag("C04", "cbor_decref cleared the pointer although references remain"); }
        else LCV(cbor_intermediate_decref(p));
        if (!last && nodes[id].in > 0 && nodes[id].client == 1) child_died_container_survived = true;  // client let go, container keeps it
        drop_client(s); effective++;
        note(std::string(op == H_DECREF ? "decref" : "idecref") + "(s" + std::to_string(s) + ")");
        break;
      }
      case H_PUSH: case H_PUSH_MOVE: case H_SET: case H_REPLACE: {
        int sa = pick_typed(a, [](const MNode& n) { return n.type == 4; }); int sb = pick_slot(b);
        if (sa < 0 || sb < 0) return;
        int A = slot[sa], B = slot[sb];
        if (reaches(B, A)) return;  // would create a cycle
        MNode& arr = nodes[A];
        size_t size = arr.out.size();
        size_t idx = op == H_PUSH || op == H_PUSH_MOVE ? size : (size_t)(c % (size + 3));
        bool full = !arr.indef && size >= arr.cap;
        bool predict = op == H_REPLACE ? idx < size : (idx < size ? true : (idx == size ? !full : false));
        if (idx == size && full) boundary_hits++;
        if (idx > size) boundary_hits++;
        uint64_t before = use_va ? va::g.reallocs : ar::g.reallocs;
        bool ok;
        if (op == H_PUSH_MOVE) {
          if (!predict || nodes[B].client < 1) return;  // cbor_move gives away a client reference: only when the push will succeed
          ok = LC(cbor_array_push(arr.item, cbor_move(nodes[B].item)));
          if (ok) { nodes[B].client--; slot[sb] = -1; }
          else { flag("C12", "push(move) refused although the array has room"); nodes[B].client--; slot[sb] = -1; /* the moved reference is lost by the rules */ }
        } else if (op == H_PUSH) ok = LC(cbor_array_push(arr.item, nodes[B].item));
        else if (op == H_SET) ok = LC(cbor_array_set(arr.item, idx, nodes[B].item));
        else ok = LC(cbor_array_replace(arr.item, idx, nodes[B].item));
        reallocs_seen += (use_va ? va::g.reallocs : ar::g.reallocs) - before;
        if (ok != predict && !(refused_now() && !ok)) flag("C12", std::string(nm) + "(index " + std::to_string(idx) + ", size " + std::to_string(size) + ", " + (arr.indef ? "indefinite" : "capacity " + std::to_string(arr.cap)) + ") returned " + (ok ? "true" : "false") + ", the list model says " + (predict ? "true" : "false"));
        if (ok) {
          // follow what the call reported: an accepted store at idx < size replaces, otherwise appends
          if (idx < size) { int old = arr.out[idx]; nodes[A].out[idx] = B; nodes[B].in++; nodes[old].in--; maybe_die(old); }
          else { nodes[A].out.push_back(B); nodes[B].in++; }
        }
        effective++;
        note(std::string(nm) + "(s" + std::to_string(sa) + "," + std::to_string(idx) + ",s" + std::to_string(sb) + ")=" + (ok ? "T" : "F"));
        if (check_lists) check_contents(A, nm);
        break;
      }
      case H_GET: {
        int sa = pick_typed(a, [](const MNode& n) { return n.type == 4; }); int s = free_slot();
        if (sa < 0 || s < 0) return;
        int A = slot[sa]; size_t size = nodes[A].out.size(); size_t idx = (size_t)(c % (size + 3));
        if (idx >= size) boundary_hits++;
        cbor_item_t* r = LC(cbor_array_get(nodes[A].item, idx));
        if (idx < size) {
          if (r != nodes[nodes[A].out[idx]].item) flag("C12", "get(" + std::to_string(idx) + ") did not return the element the list model holds");
          if (r) { int id = nodes[A].out[idx]; nodes[id].client++; slot[s] = id; }
        } else if (r != nullptr) flag("C12", "get(" + std::to_string(idx) + ") on an array of size " + std::to_string(size) + " did not return NULL");
        effective++;
        note("get(s" + std::to_string(sa) + "," + std::to_string(idx) + ")");
        break;
      }
      case H_MAP_ADD: case H_MAP_ADD_MOVE: {
        int sa = pick_typed(a, [](const MNode& n) { return n.type == 5; }); int sk = pick_slot(b); int sv = pick_slot(c);
        if (sa < 0 || sk < 0 || sv < 0) return;
        int A = slot[sa], K = slot[sk], V = slot[sv];
        if (reaches(K, A) || reaches(V, A)) return;
        MNode& m = nodes[A]; size_t size = m.out.size() / 2;
        bool full = !m.indef && size >= m.cap; if (full) boundary_hits++;
        bool moving = op == H_MAP_ADD_MOVE;
        if (moving && (full || sk == sv)) return;   // cbor_move gives away client references: only when the add will succeed, and from two distinct slots
        uint64_t before = use_va ? va::g.reallocs : ar::g.reallocs;
        struct cbor_pair pr; pr.key = nodes[K].item; pr.value = nodes[V].item;
        bool ok;
        if (moving) { ok = LC(cbor_map_add(m.item, (struct cbor_pair){cbor_move(nodes[K].item), cbor_move(nodes[V].item)})); nodes[K].client--; nodes[V].client--; slot[sk] = -1; slot[sv] = -1; }
        else ok = LC(cbor_map_add(m.item, pr));
        reallocs_seen += (use_va ? va::g.reallocs : ar::g.reallocs) - before;
        if (ok == full && !(refused_now() && !ok)) flag("C12", std::string("map_add on a ") + (m.indef ? "indefinite" : "definite") + " map of size " + std::to_string(size) + "/" + std::to_string(m.cap) + " returned " + (ok ? "true" : "false"));
        if (ok) { nodes[A].out.push_back(K); nodes[A].out.push_back(V); nodes[K].in++; nodes[V].in++; }
        effective++;
        note("map_add(s" + std::to_string(sa) + ",s" + std::to_string(sk) + ",s" + std::to_string(sv) + ")=" + (ok ? "T" : "F"));
        if (check_lists) check_contents(A, nm);
        break;
      }
      case H_ADD_CHUNK: case H_CHUNK_MOVE: {
        int sa = pick_typed(a, [](const MNode& n) { return (n.type == 2 || n.type == 3) && n.indef; }); if (sa < 0) return;
        int A = slot[sa]; int want = nodes[A].type;
        int sb = pick_typed(b, [want](const MNode& n) { return n.type == want && !n.indef; }); if (sb < 0) return;
        int B = slot[sb];
        uint64_t before = use_va ? va::g.reallocs : ar::g.reallocs;
        bool ok;
        if (op == H_CHUNK_MOVE) { ok = want == 2 ? LC(cbor_bytestring_add_chunk(nodes[A].item, cbor_move(nodes[B].item))) : LC(cbor_string_add_chunk(nodes[A].item, cbor_move(nodes[B].item))); nodes[B].client--; slot[sb] = -1; }
        else ok = want == 2 ? LC(cbor_bytestring_add_chunk(nodes[A].item, nodes[B].item)) : LC(cbor_string_add_chunk(nodes[A].item, nodes[B].item));
        reallocs_seen += (use_va ? va::g.reallocs : ar::g.reallocs) - before;
        if (!ok && !refused_now()) flag("C12", "add_chunk refused on a chunked string");
        if (ok) { nodes[A].out.push_back(B); nodes[B].in++; }
        effective++;
        note("add_chunk(s" + std::to_string(sa) + ",s" + std::to_string(sb) + ")");
        if (check_lists) check_contents(A, nm);
        break;
      }
      case H_TAG_SET_MOVE: {   // cbor_tag_set_item(tag, cbor_move(item)) on an empty tag: the client's reference becomes the tag's
        int sa = pick_typed(a, [](const MNode& n) { return n.type == 6 && n.out.empty(); }); int sb = pick_slot(b);
        if (sa < 0 || sb < 0) return;
        int A = slot[sa], B = slot[sb];
        if (reaches(B, A)) return;
        LCV(cbor_tag_set_item(nodes[A].item, cbor_move(nodes[B].item)));
        nodes[A].out.push_back(B); nodes[B].in++; nodes[B].client--; slot[sb] = -1;
        effective++;
        note("tag_set_move(s" + std::to_string(sa) + ",s" + std::to_string(sb) + ")");
        break;
      }
      case H_TAG_SET: {
        int sa = pick_typed(a, [](const MNode& n) { return n.type == 6; }); int sb = pick_slot(b);
        if (sa < 0 || sb < 0) return;
        int A = slot[sa], B = slot[sb];
        if (reaches(B, A)) return;
        if (!nodes[A].out.empty()) {
          // documented: the previous item's reference count is not touched -> that reference passes to the client
          int s = free_slot(); if (s < 0) return;
          int old = nodes[A].out[0];
          LCV(cbor_tag_set_item(nodes[A].item, nodes[B].item));
          nodes[old].in--; nodes[old].client++; slot[s] = old;
          nodes[A].out[0] = B; nodes[B].in++;
        } else {
          LCV(cbor_tag_set_item(nodes[A].item, nodes[B].item));
          nodes[A].out.push_back(B); nodes[B].in++;
        }
        effective++;
        note("tag_set(s" + std::to_string(sa) + ",s" + std::to_string(sb) + ")");
        break;
      }
      case H_TAG_GET: {
        int sa = pick_typed(a, [](const MNode& n) { return n.type == 6 && !n.out.empty(); }); int s = free_slot();
        if (sa < 0 || s < 0) return;
        int A = slot[sa];
        cbor_item_t* r = LC(cbor_tag_item(nodes[A].item));
        int id = nodes[A].out[0];
        if (r != nodes[id].item) flag("C04", "cbor_tag_item returned a different item than was set");
        nodes[id].client++; slot[s] = id; effective++;
        note("tag_get(s" + std::to_string(sa) + ")->s" + std::to_string(s));
        break;
      }
      case H_TAG_BUILD: {
        int sb = pick_slot(b); int s = free_slot(); if (sb < 0 || s < 0) return;
        cbor_item_t* t = LC(cbor_build_tag(v, nodes[slot[sb]].item));
        if (!t) { if (!refused_now()) flag("C04", "cbor_build_tag returned NULL"); break; }
        ref::Node leaf; leaf.type = 6; leaf.value = v;
        int id = add_node(t, 6, false, 0, leaf);
        nodes[id].client = 1; nodes[id].out.push_back(slot[sb]); nodes[slot[sb]].in++; slot[s] = id; effective++;
        note("tag_build(s" + std::to_string(sb) + ")->s" + std::to_string(s));
        break;
      }
      case H_SERIALIZE: case H_SIZE: case H_DESCRIBE: {
        int sa = pick_slot(a); if (sa < 0 || !complete(slot[sa])) return;
        cbor_item_t* it = nodes[slot[sa]].item;
        if (op == H_DESCRIBE) { if (devnull) { cbor_describe(it, devnull); } break; }   // stdio may allocate: outside the bypass window
        ref::Bytes want = ref::encode(ast_of(slot[sa]));
        uint64_t rq = use_va ? va::g.requests + va::g.frees : ar::g.requests + ar::g.frees;
        uint64_t lm = ar::g.libc_mallocs_in_lib + ar::g.libc_frees_in_lib;
        size_t sz = LC(cbor_serialized_size(it));
        if (sz != want.size()) flag("C03", "serialized size " + std::to_string(sz) + ", model encoding has " + std::to_string(want.size()));
        if (op == H_SERIALIZE && sz == want.size()) {
          std::vector<uint8_t> out(sz + 1);
          size_t w = LC(cbor_serialize(it, out.data(), sz));
          if (w != sz || memcmp(out.data(), want.data(), sz) != 0) flag("C03", "serialized bytes differ from the encoding of the model tree");
        }
        uint64_t rq2 = use_va ? va::g.requests + va::g.frees : ar::g.requests + ar::g.frees;
        if (rq2 != rq) flag("C13", "cbor_serialized_size / cbor_serialize called the allocator");
        if (ar::g.libc_mallocs_in_lib + ar::g.libc_frees_in_lib != lm) flag("C13", "cbor_serialized_size / cbor_serialize used the C library heap");
        note(std::string(nm) + "(s" + std::to_string(sa) + ")");
        break;
      }
      case H_BORROW: {
        int sa = pick_slot(a); if (sa < 0) return;
        if (check_lists) check_contents(slot[sa], nm);
        break;
      }
      case H_RESET_HANDLE: {
        // in-place length trim: hand the block the client attached earlier back to set_handle with a shorter length
        // (only for items whose payload block really is a client-provided allocator block)
        int sa = pick_typed(a, [](const MNode& n) { return (n.type == 2 || n.type == 3) && !n.indef && n.client_handle; }); if (sa < 0) return;
        MNode& n = nodes[slot[sa]];
        size_t len = n.leaf.bytes.size(); size_t nl = len ? (size_t)b % (len + 1) : 0;
        if (n.type == 2) { unsigned char* h = cbor_bytestring_handle(n.item); LCV(cbor_bytestring_set_handle(n.item, h, nl)); }
        else { unsigned char* h = cbor_string_handle(n.item); LCV(cbor_string_set_handle(n.item, h, nl)); }
        n.leaf.bytes.resize(nl); effective++;
        note("reset_handle(s" + std::to_string(sa) + "," + std::to_string(nl) + ")");
        break;
      }
    }
  }

  void run(const uint8_t* prog, size_t len, size_t max_steps = 400) {
    if (use_va) { va::g.log_frees = true; va::g.freed_serials.clear(); }
    for (size_t i = 0; i + 4 <= len && steps < max_steps && !failed_for(stop_prop); i += 4) step(prog[i], prog[i + 1], prog[i + 2], prog[i + 3]);
    // the client now drops every reference it still holds, in slot order
    for (int s = 0; s < P && !failed_for(stop_prop); s++) {
      if (slot[s] < 0) continue;
      cbor_item_t* p = nodes[slot[s]].item;
      LCV(cbor_decref(&p));
      drop_client(s);
      check_invariant("final decref");
    }
    if (use_va) va::g.log_frees = false;
  }
#undef LC
#undef LCV
};

}  // namespace hist
