// drv_scalar — decides C15 (floating-point bit patterns) and C16 (UTF-8 code point count).
//   C15: campaign HALF / SINGLE / DOUBLE: aux[0] = the encoded bit pattern at that width
//        campaign ENCHALF: aux[0] = single-precision pattern handed to cbor_encode_half
//   C16: campaign UTF8: data = the byte sequence of the text string
#include <cstdio>
#include <cstdlib>
#include <cstring>
#include <cmath>
#include <string>
#include "cbor.h"
#include "common/harness.hpp"
#include "alloc/valloc.hpp"
#include "ref/refcbor.hpp"

using vh::Case; using vh::Result; using vh::Ctx;

static uint32_t f2u(float f) { uint32_t u; memcpy(&u, &f, 4); return u; }
static uint64_t d2u(double d) { uint64_t u; memcpy(&u, &d, 8); return u; }
static float u2f(uint32_t u) { float f; memcpy(&f, &u, 4); return f; }
static double u2d(uint64_t u) { double f; memcpy(&f, &u, 8); return f; }

struct FRec { int slot = 0; uint64_t bits = 0; int calls = 0; };
static void rf2(void* c, float v) { FRec* r = (FRec*)c; r->slot = 2; r->bits = f2u(v); r->calls++; }
static void rf4(void* c, float v) { FRec* r = (FRec*)c; r->slot = 4; r->bits = f2u(v); r->calls++; }
static void rf8(void* c, double v) { FRec* r = (FRec*)c; r->slot = 8; r->bits = d2u(v); r->calls++; }
static struct cbor_callbacks ftable() { struct cbor_callbacks c = cbor_empty_callbacks; c.float2 = rf2; c.float4 = rf4; c.float8 = rf8; return c; }
static const struct cbor_callbacks kF = ftable();

// single -> double bits, exact, by integer manipulation
static uint64_t single_to_double_bits(uint32_t f) {
  uint64_t sign = (uint64_t)(f >> 31) << 63; uint32_t e = (f >> 23) & 0xff, m = f & 0x7fffff;
  if (e == 0xff) return sign | 0x7ff0000000000000ull | ((uint64_t)m << 29);
  if (e == 0) { if (!m) return sign; int sh = 0; while (!(m & 0x800000)) { m <<= 1; sh++; } m &= 0x7fffff; return sign | ((uint64_t)(1023 - 126 - sh) << 52) | ((uint64_t)m << 29); }
  return sign | ((uint64_t)(e - 127 + 1023) << 52) | ((uint64_t)m << 29);
}

static Result judge_float(int width, uint64_t pat) {
  Result r; r.klass = width == 2 ? "half" : width == 4 ? "single" : "double";
  va::reset_counters();
  uint8_t enc[9]; size_t n;
  if (width == 2) { enc[0] = 0xf9; enc[1] = (uint8_t)(pat >> 8); enc[2] = (uint8_t)pat; n = 3; pat &= 0xffff; }
  else if (width == 4) { enc[0] = 0xfa; for (int i = 0; i < 4; i++) enc[1 + i] = (uint8_t)(pat >> (8 * (3 - i))); n = 5; pat &= 0xffffffffull; }
  else { enc[0] = 0xfb; for (int i = 0; i < 8; i++) enc[1 + i] = (uint8_t)(pat >> (8 * (7 - i))); n = 9; }
  bool nan = width == 2 ? ref::half_is_nan((uint16_t)pat) : width == 4 ? ref::single_is_nan((uint32_t)pat) : ref::double_is_nan(pat);
  uint64_t want_bits = width == 2 ? ref::half_to_single_bits((uint16_t)pat) : pat;   // bits of the value at the width libcbor stores (float / float / double)
  uint8_t canon[9]; memcpy(canon, enc, n);
  if (nan) { if (width == 2) { canon[1] = 0x7e; canon[2] = 0; } else if (width == 4) { canon[1] = 0x7f; canon[2] = 0xc0; canon[3] = canon[4] = 0; } else { canon[1] = 0x7f; canon[2] = 0xf8; memset(canon + 3, 0, 6); } }
  {  // non-trivial: zero / subnormal / inf / NaN, or within 2 ulp of a binade boundary
    int mbits = width == 2 ? 10 : width == 4 ? 23 : 52; uint64_t m = pat & ((1ull << mbits) - 1), mx = (1ull << mbits) - 1;
    uint64_t e = (pat >> mbits) & (width == 2 ? 0x1f : width == 4 ? 0xff : 0x7ff), emax = width == 2 ? 0x1f : width == 4 ? 0xff : 0x7ff;
    r.nontrivial = e == 0 || e == emax || m <= 2 || m >= mx - 2;
  }
  char tag[48]; snprintf(tag, sizeof tag, "%s pattern 0x%llx: ", r.klass, (unsigned long long)pat);
  auto fail = [&](const std::string& m) { r.ok = false; r.msg = std::string(tag) + m; va::release_all(); return r; };
  auto value_ok = [&](uint64_t got) { return nan ? (width == 8 ? ref::double_is_nan(got) : ref::single_is_nan((uint32_t)got)) : got == want_bits; };
  // 1. streaming decoder
  uint8_t* in = (uint8_t*)malloc(n); memcpy(in, enc, n);
  FRec rec; struct cbor_decoder_result dr = cbor_stream_decode(in, n, &kF, &rec);
  if (dr.status != CBOR_DECODER_FINISHED || dr.read != n || rec.calls != 1 || rec.slot != width) { free(in); return fail("streaming decoder did not deliver exactly one float callback of the right width"); }
  if (!value_ok(rec.bits)) { free(in); char b[96]; snprintf(b, sizeof b, "callback value bits 0x%llx, IEEE-754 value is 0x%llx", (unsigned long long)rec.bits, (unsigned long long)want_bits); return fail(b); }
  // 2. tree decoder
  struct cbor_load_result lr; cbor_item_t* it = cbor_load(in, n, &lr);
  free(in);
  if (!it) return fail("cbor_load rejected a float");
  if (!cbor_is_float(it) || cbor_float_get_width(it) != (width == 2 ? CBOR_FLOAT_16 : width == 4 ? CBOR_FLOAT_32 : CBOR_FLOAT_64)) { cbor_decref(&it); return fail("loaded item does not record the encoded width"); }
  uint64_t stored = width == 2 ? f2u(cbor_float_get_float2(it)) : width == 4 ? f2u(cbor_float_get_float4(it)) : d2u(cbor_float_get_float8(it));
  if (!value_ok(stored)) { cbor_decref(&it); char b[96]; snprintf(b, sizeof b, "stored value bits 0x%llx, IEEE-754 value is 0x%llx", (unsigned long long)stored, (unsigned long long)want_bits); return fail(b); }
  uint64_t asd = d2u(cbor_float_get_float(it));
  uint64_t want_d = width == 8 ? want_bits : single_to_double_bits((uint32_t)want_bits);
  if (nan ? !ref::double_is_nan(asd) : asd != want_d) { cbor_decref(&it); return fail("cbor_float_get_float does not return the same value widened to double"); }
  // 3. serialize reproduces the bytes (NaN canonical)
  uint8_t out[16]; memset(out, 0xC5, sizeof out);
  size_t w = cbor_serialize(it, out, sizeof out);
  cbor_decref(&it);
  if (w != n || memcmp(out, canon, n) != 0) return fail("cbor_serialize wrote " + vh::hex(out, w) + ", expected " + vh::hex(canon, n));
  // 4. the low-level encoder and the builder on the decoded value
  memset(out, 0xC5, sizeof out);
  w = width == 2 ? cbor_encode_half(u2f((uint32_t)stored), out, sizeof out) : width == 4 ? cbor_encode_single(u2f((uint32_t)stored), out, sizeof out) : cbor_encode_double(u2d(stored), out, sizeof out);
  if (w != n || memcmp(out, canon, n) != 0) return fail("cbor_encode_* wrote " + vh::hex(out, w) + ", expected " + vh::hex(canon, n));
  // and on the exact original pattern (a NaN keeps its payload in the float; the encoder must still canonicalise)
  memset(out, 0xC5, sizeof out);
  w = width == 2 ? cbor_encode_half(u2f((uint32_t)want_bits), out, sizeof out) : width == 4 ? cbor_encode_single(u2f((uint32_t)pat), out, sizeof out) : cbor_encode_double(u2d(pat), out, sizeof out);
  if (w != n || memcmp(out, canon, n) != 0) return fail("cbor_encode_* on the original pattern wrote " + vh::hex(out, w) + ", expected " + vh::hex(canon, n));
  if (uint8_t* hb = vh::huge_buffer()) {   // buffer sizes that do not fit an int / a uint32_t
    size_t claim = vh::kHugeClaims[(pat ^ (pat >> 17) ^ (uint64_t)width) % 7];
    memset(hb, 0xC5, 16);
    w = width == 2 ? cbor_encode_half(u2f((uint32_t)want_bits), hb, claim) : width == 4 ? cbor_encode_single(u2f((uint32_t)pat), hb, claim) : cbor_encode_double(u2d(pat), hb, claim);
    vh::counters["huge_buffer_calls"]++;
    if (w != n || memcmp(hb, canon, n) != 0 || hb[n] != 0xC5) return fail("cbor_encode_* with a buffer of " + std::to_string(claim) + " bytes returned " + std::to_string(w) + " / wrote " + vh::hex(hb, 10) + ", expected " + vh::hex(canon, n));
  }
  cbor_item_t* b = width == 2 ? cbor_build_float2(u2f((uint32_t)want_bits)) : width == 4 ? cbor_build_float4(u2f((uint32_t)pat)) : cbor_build_float8(u2d(pat));
  if (!b) return fail("builder failed");
  memset(out, 0xC5, sizeof out); w = cbor_serialize(b, out, sizeof out); cbor_decref(&b);
  if (w != n || memcmp(out, canon, n) != 0) return fail("serializing a built item wrote " + vh::hex(out, w) + ", expected " + vh::hex(canon, n));
  if (va::g.live_blocks) return fail("blocks left allocated");
  return r;
}

// cbor_encode_half is total: any float gives three bytes F9 xx xx without undefined behaviour
static Result judge_enchalf(uint32_t f) {
  Result r; r.klass = "encode_half(any float)";
  uint8_t out[8]; memset(out, 0xC5, sizeof out);
  size_t w = cbor_encode_half(u2f(f), out, sizeof out);
  char tag[48]; snprintf(tag, sizeof tag, "cbor_encode_half(0x%08x): ", f);
  if (w != 3 || out[0] != 0xf9 || out[3] != 0xC5) { r.ok = false; r.msg = std::string(tag) + "returned " + std::to_string(w) + " / wrote " + vh::hex(out, 4); return r; }
  uint16_t h; bool rep = ref::single_to_half_exact(f, &h);
  uint32_t e = (f >> 23) & 0xff;
  r.nontrivial = e == 0 || e == 0xff || e < 127 - 24 || e > 127 + 15 || !rep;
  if (ref::single_is_nan(f)) { if (!(out[1] == 0x7e && out[2] == 0x00)) { r.ok = false; r.msg = std::string(tag) + "NaN encoded as " + vh::hex(out, 3); } }
  else if (rep && (out[1] != (h >> 8) || out[2] != (h & 0xff))) { r.ok = false; uint8_t hb[2] = {(uint8_t)(h >> 8), (uint8_t)h}; r.msg = std::string(tag) + "half-representable value encoded as " + vh::hex(out, 3) + ", expected f9" + vh::hex(hb, 2); }
  // small buffers: 0 and untouched
  uint8_t small[2] = {0xC5, 0xC5};
  if (cbor_encode_half(u2f(f), small, 2) != 0 || small[0] != 0xC5 || small[1] != 0xC5) { r.ok = false; r.msg = std::string(tag) + "wrote into a 2-byte buffer"; }
  return r;
}

// ---------------------------------------------------------------------------- C16
static Result judge_utf8(const uint8_t* d, size_t n) {
  Result r; r.klass = "utf8";
  va::reset_counters();
  long long cnt = ref::utf8_count(d, n);
  size_t want = cnt < 0 ? 0 : (size_t)cnt;
  r.klass = cnt < 0 ? "invalid" : "valid";
  for (size_t i = 0; i < n; i++) if (d[i] >= 0x80) { r.nontrivial = true; break; }
  auto fail = [&](const std::string& m) { r.ok = false; r.msg = m + " for bytes " + vh::hex(d, n > 40 ? 40 : n) + (n > 40 ? "..." : "") + " (" + (cnt < 0 ? "invalid UTF-8" : "valid, " + std::to_string(want) + " scalar values") + ")"; va::release_all(); return r; };
  auto check = [&](cbor_item_t* it, const char* how, std::string& m) {
    if (!it) { m = std::string(how) + ": NULL"; return false; }
    bool ok = true;
    if (!cbor_isa_string(it) || !cbor_string_is_definite(it)) { m = std::string(how) + ": not a definite text string"; ok = false; }
    else if (cbor_string_codepoint_count(it) != want) { m = std::string(how) + ": codepoint count " + std::to_string(cbor_string_codepoint_count(it)) + ", expected " + std::to_string(want); ok = false; }
    else if (cbor_string_length(it) != n) { m = std::string(how) + ": length " + std::to_string(cbor_string_length(it)) + ", expected " + std::to_string(n); ok = false; }
    else if (n && memcmp(cbor_string_handle(it), d, n) != 0) { m = std::string(how) + ": bytes changed"; ok = false; }
    return ok;
  };
  std::string m;
  // (a) cbor_build_stringn, and a copy of it
  cbor_item_t* a = cbor_build_stringn((const char*)d, n);
  if (!check(a, "cbor_build_stringn", m)) { if (a) cbor_decref(&a); return fail(m); }
  cbor_item_t* cp = cbor_copy(a);
  bool okc = check(cp, "cbor_copy of the string", m);
  if (cp) cbor_decref(&cp);
  cbor_decref(&a);
  if (!okc) return fail(m);
  // (b) new + set_handle; then re-attach other content to the same item (the client owns and frees the old block)
  {
    cbor_item_t* it = cbor_new_definite_string();
    unsigned char* h0 = (unsigned char*)va::vmalloc(5); memcpy(h0, "h\xc3\xa9llo", 5);
    cbor_string_set_handle(it, h0, 5);
    if (cbor_string_codepoint_count(it) != 4) { cbor_decref(&it); return fail("set_handle(\"h\\xc3\\xa9llo\"): count " + std::to_string(cbor_string_codepoint_count(it))); }
    unsigned char* h1 = (unsigned char*)va::vmalloc(n); if (n) memcpy(h1, d, n);
    cbor_string_set_handle(it, h1, n);
    va::vfree(h0);
    bool ok = check(it, "cbor_string_set_handle (re-attached)", m);
    cbor_decref(&it);
    if (!ok) return fail(m);
    cbor_item_t* it2 = cbor_new_definite_string();
    unsigned char* h2 = (unsigned char*)va::vmalloc(n); if (n) memcpy(h2, d, n);
    cbor_string_set_handle(it2, h2, n);
    ok = check(it2, "cbor_string_set_handle", m);
    cbor_decref(&it2);
    if (!ok) return fail(m);
  }
  // (c) decoded: shortest head, and the next wider head; decoding never rejects on content
  for (int wide = 0; wide < 2; wide++) {
    ref::Bytes enc; int w = n < 24 ? 0 : n <= 0xff ? 1 : n <= 0xffff ? 2 : 4; if (wide) w = w == 0 ? 1 : w * 2;
    ref::put_head(enc, 3, n, w); enc.insert(enc.end(), d, d + n);
    uint8_t* in = (uint8_t*)malloc(enc.size()); memcpy(in, enc.data(), enc.size());
    struct cbor_load_result lr; cbor_item_t* it = cbor_load(in, enc.size(), &lr);
    free(in);
    if (!it) return fail(std::string("cbor_load rejected a text string (") + ref::code_name(lr.error.code) + ")");
    bool ok = check(it, "cbor_load", m);
    cbor_decref(&it);
    if (!ok) return fail(m);
  }
  // (d) as a chunk of an indefinite string: the chunk keeps its own count
  {
    ref::Bytes enc = {0x7f}; ref::put_head(enc, 3, n); enc.insert(enc.end(), d, d + n); enc.push_back(0xff);
    struct cbor_load_result lr; cbor_item_t* it = cbor_load(enc.data(), enc.size(), &lr);
    if (!it) return fail("cbor_load rejected a chunked text string because of its content");
    bool ok = cbor_string_chunk_count(it) == 1 && check(cbor_string_chunks_handle(it)[0], "chunk of a decoded indefinite string", m);
    cbor_decref(&it);
    if (!ok) return fail(m.empty() ? "chunk count" : m);
  }
  // (e) cbor_build_string for NUL-free content
  if (n == 0 || !memchr(d, 0, n)) {
    std::string z((const char*)d, n);
    cbor_item_t* it = cbor_build_string(z.c_str());
    bool ok = check(it, "cbor_build_string", m);
    if (it) cbor_decref(&it);
    if (!ok) return fail(m);
  }
  if (va::g.live_blocks) return fail("blocks left allocated");
  return r;
}

static Result run_case(const std::string& prop, const Case& c) {
  if (prop == "C15") {
    if (c.campaign == "HALF") return judge_float(2, c.aux[0]);
    if (c.campaign == "SINGLE") return judge_float(4, c.aux[0]);
    if (c.campaign == "DOUBLE") return judge_float(8, c.aux[0]);
    return judge_enchalf((uint32_t)c.aux[0]);
  }
  if (prop == "C16") return judge_utf8(c.data.data(), c.data.size());
  Result r; r.ok = false; r.msg = "unknown property"; return r;
}

// ------------------------------------------------------------------------------ campaigns
static void camp_C15(Ctx& ctx) {
  bool thorough = ctx.tier == "thorough";
  Case c;
  c.campaign = "HALF";
  for (uint64_t h = 0; h < 65536; h++) if (ctx.mine(h)) { c.aux[0] = h; ctx.exec(c); }
  ctx.campaign_exhaustive["HALF"] = true;
  c.campaign = "SINGLE";
  if (thorough) {
    for (uint64_t hi = 0; hi < 65536 && !ctx.stop(); hi++) {
      if (!ctx.mine(hi)) continue;
      for (uint64_t lo = 0; lo < 65536; lo++) { c.aux[0] = (hi << 16) | lo; ctx.exec(c); }
      if ((hi & 0xff) == 0 && ctx.out_of_time()) break;
    }
    ctx.campaign_exhaustive["SINGLE"] = !ctx.inconclusive;
  } else {
    uint64_t idx = 0;
    for (uint64_t v = 0; v <= 0xffffffffull; v += 211) if (ctx.mine(idx++)) { c.aux[0] = v; ctx.exec(c); }
    for (uint64_t s = 0; s < 2; s++) for (uint64_t e = 0; e < 256; e++) for (uint64_t m : {0ull, 1ull, 2ull, 0x3fffffull, 0x400000ull, 0x400001ull, 0x7ffffdull, 0x7ffffeull, 0x7fffffull, 0x1000ull, 0x1fffull, 0x2000ull})
      if (ctx.mine(idx++)) { c.aux[0] = (s << 31) | (e << 23) | m; ctx.exec(c); }
    ctx.campaign_exhaustive["SINGLE"] = false;
  }
  c.campaign = "DOUBLE";
  {
    uint64_t idx = 0;
    for (uint64_t s = 0; s < 2; s++) for (uint64_t e = 0; e < 2048; e++)
      for (uint64_t m : {0ull, 1ull, 2ull, 0x7ffffffffffffull, 0x8000000000000ull, 0x8000000000001ull, 0xffffffffffffdull, 0xffffffffffffeull, 0xfffffffffffffull, 0x100000000ull, 0xffffffffull, 0x20000000ull, 0x1fffffffull, 0x40000000000ull})
        if (ctx.mine(idx++)) { c.aux[0] = (s << 63) | (e << 52) | m; ctx.exec(c); }
    uint64_t nrand = thorough ? 400000000ull : 40000000ull;
    for (uint64_t i = 0; i < nrand && !ctx.stop(); i++) { if (!ctx.mine(i)) continue; c.aux[0] = vh::prand(ctx.seed, 150, i); ctx.exec(c); if ((i & 0xfffff) == 0 && ctx.out_of_time()) break; }
    // NaN payloads confined to one half of the mantissa, every single payload bit
    for (uint64_t bit = 0; bit < 52; bit++) for (uint64_t s = 0; s < 2; s++) if (ctx.mine(idx++)) { c.aux[0] = (s << 63) | 0x7ff0000000000000ull | (1ull << bit); ctx.exec(c); }
  }
  c.campaign = "ENCHALF";
  {
    uint64_t idx = 0;
    if (thorough) { for (uint64_t hi = 0; hi < 65536 && !ctx.stop(); hi++) { if (!ctx.mine(hi)) continue; for (uint64_t lo = 0; lo < 65536; lo++) { c.aux[0] = (hi << 16) | lo; ctx.exec(c); } if ((hi & 0xff) == 0 && ctx.out_of_time()) break; } ctx.campaign_exhaustive["ENCHALF"] = !ctx.inconclusive; }
    else {
      for (uint64_t v = 0; v <= 0xffffffffull; v += 4099) if (ctx.mine(idx++)) { c.aux[0] = v; ctx.exec(c); }
      for (uint64_t s = 0; s < 2; s++) for (uint64_t e = 0; e < 256; e++) for (uint64_t m : {0ull, 1ull, 0x1000ull, 0x1fffull, 0x2000ull, 0x3fffffull, 0x400000ull, 0x7fe000ull, 0x7fffffull}) if (ctx.mine(idx++)) { c.aux[0] = (s << 31) | (e << 23) | m; ctx.exec(c); }
    }
  }
  ctx.distinct_by_construction = false;
  ctx.notes["C15"] = std::string("HALF: all 65536 patterns; SINGLE: ") + (thorough ? "all 2^32 patterns" : "every 211th pattern plus every exponent x 12 boundary mantissas x both signs") +
                     "; DOUBLE: every exponent x 14 boundary mantissas x both signs, every single-bit NaN payload, and seeded 64-bit patterns; ENCHALF: " + (thorough ? "all 2^32 floats" : "every 4099th float plus exponent x boundary mantissas") + " through cbor_encode_half";
}

static void put_scalar(ref::Bytes& o, uint32_t cp) {
  if (cp < 0x80) o.push_back((uint8_t)cp);
  else if (cp < 0x800) { o.push_back((uint8_t)(0xc0 | (cp >> 6))); o.push_back((uint8_t)(0x80 | (cp & 0x3f))); }
  else if (cp < 0x10000) { o.push_back((uint8_t)(0xe0 | (cp >> 12))); o.push_back((uint8_t)(0x80 | ((cp >> 6) & 0x3f))); o.push_back((uint8_t)(0x80 | (cp & 0x3f))); }
  else { o.push_back((uint8_t)(0xf0 | (cp >> 18))); o.push_back((uint8_t)(0x80 | ((cp >> 12) & 0x3f))); o.push_back((uint8_t)(0x80 | ((cp >> 6) & 0x3f))); o.push_back((uint8_t)(0x80 | (cp & 0x3f))); }
}
static void camp_C16(Ctx& ctx) {
  bool thorough = ctx.tier == "thorough";
  Case c; c.campaign = "UTF8";
  int maxlen = thorough ? 4 : 3;
  if (ctx.shard == 0) { c.data.clear(); ctx.exec(c); }
  for (int len = 1; len <= maxlen && !ctx.stop(); len++) {
    c.data.assign((size_t)len, 0);
    for (int first = 0; first < 256; first++) {
      if (!ctx.mine((uint64_t)first)) continue;
      c.data[0] = (uint8_t)first;
      uint64_t total = 1; for (int i = 1; i < len; i++) total *= 256;
      for (uint64_t v = 0; v < total; v++) { for (int i = 1; i < len; i++) c.data[(size_t)i] = (uint8_t)(v >> (8 * (len - 1 - i))); ctx.exec(c); if (ctx.stop()) return; }
      if (ctx.out_of_time()) return;
    }
  }
  ctx.campaign_exhaustive["UTF8"] = true;
  ctx.notes["UTF8"] = "every byte sequence of length 0.." + std::to_string(maxlen);
  // structured: runs of ASCII around scalars of every length class and boundary, with one injected fault
  c.campaign = "UTF8F";
  static const uint32_t scal[] = {0x00, 0x41, 0x7f, 0x80, 0xe9, 0x7ff, 0x800, 0x20ac, 0xd7ff, 0xe000, 0xfffd, 0xffff, 0x10000, 0x1f600, 0x10ffff};
  uint64_t count = thorough ? 30000000ull : 1500000ull;
  ctx.distinct_by_construction = false;
  for (uint64_t i = 0; i < count && !ctx.stop(); i++) {
    if (!ctx.mine(i)) continue;
    uint64_t r0 = vh::prand(ctx.seed, 160, i);
    ref::Bytes s; std::vector<size_t> starts;
    int pieces = 1 + (int)(r0 % 6);
    for (int k = 0; k < pieces; k++) {
      uint64_t x = vh::prand(ctx.seed, 161, i * 16 + (uint64_t)k);
      size_t run = (size_t)(x % 5 == 0 ? (x >> 8) % 41 : (x >> 8) % 4);       // occasional long ASCII runs (word-at-a-time fast paths)
      for (size_t q = 0; q < run; q++) s.push_back((uint8_t)('a' + q % 26));
      starts.push_back(s.size());
      put_scalar(s, scal[(x >> 20) % (sizeof scal / sizeof scal[0])]);
    }
    uint64_t f = vh::prand(ctx.seed, 162, i);
    int kind = (int)(f % 12); size_t at = starts[(f >> 8) % starts.size()];
    switch (kind) {
      case 0: break;                                                                          // no fault: valid text
      case 1: s.insert(s.begin() + (long)at, (uint8_t)(0x80 + (f >> 16) % 64)); break;       // stray continuation
      case 2: { static const uint8_t bad[] = {0xc0, 0xc1, 0xf5, 0xf8, 0xfc, 0xfe, 0xff}; s.insert(s.begin() + (long)at, bad[(f >> 16) % 7]); break; }
      case 3: { ref::Bytes o = {0xc0, (uint8_t)(0x80 | ((f >> 16) & 0x3f))}; s.insert(s.begin() + (long)at, o.begin(), o.end()); break; }               // overlong 2-byte
      case 4: { ref::Bytes o = {0xe0, (uint8_t)(0x80 | ((f >> 16) & 0x1f)), 0x80}; s.insert(s.begin() + (long)at, o.begin(), o.end()); break; }          // overlong 3-byte
      case 5: { ref::Bytes o = {0xf0, (uint8_t)(0x80 | ((f >> 16) & 0x0f)), 0x80, 0x80}; s.insert(s.begin() + (long)at, o.begin(), o.end()); break; }    // overlong 4-byte
      case 6: { ref::Bytes o = {0xed, (uint8_t)(0xa0 | ((f >> 16) & 0x1f)), 0x80}; s.insert(s.begin() + (long)at, o.begin(), o.end()); break; }          // surrogate
      case 7: { ref::Bytes o = {0xf4, (uint8_t)(0x90 | ((f >> 16) & 0x2f)), 0x80, 0x80}; s.insert(s.begin() + (long)at, o.begin(), o.end()); break; }    // > U+10FFFF
      case 8: { size_t cutn = 1 + (size_t)((f >> 16) % 3); if (cutn > s.size()) cutn = s.size(); s.resize(s.size() - cutn); break; }                                  // truncation
      case 9: { size_t p = at + 1; if (p < s.size()) s.erase(s.begin() + (long)p); break; }                                                             // drop a byte after the lead
      case 10: { size_t p = at + 1; size_t k = 1 + (size_t)((f >> 16) % 24); if (p <= s.size()) s.insert(s.begin() + (long)p, k, (uint8_t)'x'); break; }  // ASCII run inside a multi-byte sequence
      default: { size_t p = (size_t)((f >> 16) % (s.size() + 1)); s.insert(s.begin() + (long)p, (uint8_t)(f >> 40)); break; }                            // one arbitrary byte anywhere
    }
    c.data = s; ctx.exec(c);
    if ((i & 0xffff) == 0 && ctx.out_of_time()) break;
  }
  ctx.notes["UTF8F"] = "1..6 Unicode scalars from {U+0000,41,7F,80,E9,7FF,800,20AC,D7FF,E000,FFFD,FFFF,10000,1F600,10FFFF} separated by ASCII runs of 0..40 bytes, with one injected fault: none / stray continuation / C0,C1,F5..FF / overlong 2-,3-,4-byte / surrogate / above U+10FFFF / truncation / dropped continuation / 1..24 ASCII bytes inside a multi-byte sequence / one arbitrary byte anywhere";
}

static void run_campaigns(Ctx& ctx) { if (ctx.prop == "C15") camp_C15(ctx); else camp_C16(ctx); }

int main(int argc, char** argv) {
  cbor_set_allocs(va::vmalloc, va::vrealloc, va::vfree);
  vh::Driver drv{"drv_scalar", run_campaigns, run_case};
  return vh::driver_main(argc, argv, drv);
}
