// drv_nest — decides C19: the nesting limit is exact for the configured CBOR_MAX_STACK_SIZE and
// bounds native stack use.  Compiled once per library flavour L<n> (ASan, accept/reject oracle)
// and P<n> (-O0, no sanitizer: the whole pipeline runs on a thread whose stack is
// 256 KiB + 4 KiB * L with a guard page; touching the guard page is the violation).
// A case is one input (data); campaign NEST = generated nests, ENUM = enumerated small encodings.
#include <cstdio>
#include <cstdlib>
#include <cstring>
#include <csignal>
#include <string>
#include <pthread.h>
#include <sys/mman.h>
#include <unistd.h>
#include "cbor.h"
#include "common/harness.hpp"
#include "alloc/valloc.hpp"
#include "ref/refcbor.hpp"
#include "obs/observe.hpp"
#include "gen/enum.hpp"

using vh::Case; using vh::Result; using vh::Ctx;

#if defined(__has_feature)
#if __has_feature(address_sanitizer)
#define NEST_ASAN 1
#endif
#endif

static const size_t L = CBOR_MAX_STACK_SIZE;
static FILE* g_devnull;

struct Outcome { bool loaded = false; int code = 0; size_t pos = 0, read = 0; ref::Node ast; size_t depth = 0; bool pipeline_ok = true; std::string note; };

static void pipeline(const uint8_t* d, size_t n, Outcome& o, bool want_ast) {
  struct cbor_load_result res; memset(&res, 0, sizeof res);
  cbor_item_t* it = cbor_load(d, n, &res);
  o.code = (int)res.error.code; o.pos = res.error.position; o.read = res.read;
  if (!it) return;
  o.loaded = true;
  if (want_ast) { obs::Observation ob = obs::observe(it); o.ast = std::move(ob.ast); o.depth = ob.max_depth; }
  cbor_describe(it, g_devnull);
  size_t sz = cbor_serialized_size(it);
  if (sz) { unsigned char* b = (unsigned char*)malloc(sz); size_t w = cbor_serialize(it, b, sz); if (w != sz) { o.pipeline_ok = false; o.note = "cbor_serialize returned " + std::to_string(w) + " for size " + std::to_string(sz); } free(b); }
  uint64_t refused_before = va::g.refused_single + va::g.refused_total;
  cbor_item_t* cp = cbor_copy(it);
  if (!cp) { if (va::g.refused_single + va::g.refused_total == refused_before) { o.pipeline_ok = false; o.note = "cbor_copy returned NULL although no allocation was refused"; } } else cbor_decref(&cp);
  cbor_decref(&it);
}

// ---- bounded-stack thread ---------------------------------------------------------------------
static uint8_t* g_stack_base; static size_t g_stack_len; static size_t g_page;
static volatile sig_atomic_t g_in_bounded;
static void segv_handler(int, siginfo_t* si, void*) {
  uint8_t* a = (uint8_t*)si->si_addr;
  const char* m = (a >= g_stack_base && a < g_stack_base + g_page) ? "STACK-LIMIT: the bounded-stack thread touched its guard page (native stack use not proportional to L)\n"
                                                                     : "SIGSEGV outside the guard page\n";
  if (write(2, m, strlen(m))) {}
  abort();
}
struct Job { const uint8_t* d; size_t n; Outcome* o; };
static void* bounded_main(void* p) { Job* j = (Job*)p; pipeline(j->d, j->n, *j->o, false); return nullptr; }
static void run_bounded(const uint8_t* d, size_t n, Outcome& o) {
  if (!g_stack_base) {
    g_page = (size_t)sysconf(_SC_PAGESIZE);
    g_stack_len = ((256u << 10) + (4u << 10) * L + g_page - 1) / g_page * g_page + g_page;
    g_stack_base = (uint8_t*)mmap(nullptr, g_stack_len, PROT_READ | PROT_WRITE, MAP_PRIVATE | MAP_ANONYMOUS | MAP_STACK, -1, 0);
    mprotect(g_stack_base, g_page, PROT_NONE);   // guard page at the low end (stacks grow down)
    static uint8_t alt[1 << 16]; stack_t ss; ss.ss_sp = alt; ss.ss_size = sizeof alt; ss.ss_flags = 0; sigaltstack(&ss, nullptr);
    struct sigaction sa; memset(&sa, 0, sizeof sa); sa.sa_sigaction = segv_handler; sa.sa_flags = SA_SIGINFO | SA_ONSTACK; sigaction(SIGSEGV, &sa, nullptr); sigaction(SIGBUS, &sa, nullptr);
  }
  pthread_attr_t at; pthread_attr_init(&at);
  pthread_attr_setstack(&at, g_stack_base + g_page, g_stack_len - g_page);
  Job j{d, n, &o}; pthread_t t;
  // the new thread needs its own alternate signal stack for the handler to run after an overflow
  g_in_bounded = 1;
  pthread_create(&t, &at, [](void* p) -> void* { static thread_local uint8_t alt2[1 << 15]; stack_t ss; ss.ss_sp = alt2; ss.ss_size = sizeof alt2; ss.ss_flags = 0; sigaltstack(&ss, nullptr); return bounded_main(p); }, &j);
  pthread_join(t, nullptr);
  g_in_bounded = 0;
  pthread_attr_destroy(&at);
}

static Result judge(const Case& c) {
  Result r; r.klass = c.campaign.c_str();
  const uint8_t* d = c.data.data(); size_t n = c.data.size();
  va::reset_counters();
  ref::Policy pol; pol.max_depth = L;
  {  // where (if anywhere) the allocator refuses a request is observed, not predicted
    uint64_t saved0 = va::g.refused_single; va::g.refused_single = 0;
    struct cbor_load_result r0; cbor_item_t* it0 = cbor_load(d, n, &r0);
    if (it0) cbor_decref(&it0);
    else if (va::g.refused_single) {
      ref::TokStream t = ref::tokenise(d, n);
      for (auto& h : t.heads) { size_t q = h.off + (size_t)h.total; va::g.refused_single = 0; struct cbor_load_result r1; cbor_item_t* it1 = cbor_load(d, q, &r1); if (it1) cbor_decref(&it1); if (va::g.refused_single) { pol.refuse_at = q; break; } }
    }
    va::g.refused_single = saved0;
  }
  ref::Classified model = ref::classify(d, n, pol);
  // the reference with an unlimited stack tells whether the nesting limit is what decides this input
  ref::Policy unl = pol; unl.max_depth = (size_t)-1;
  ref::Classified free_model = ref::classify(d, n, unl);
  bool limit_decides = model.accept != free_model.accept || (!model.accept && !(model.admissible.size() == free_model.admissible.size() && model.admissible[0].code == free_model.admissible[0].code && model.admissible[0].pos == free_model.admissible[0].pos));
  r.nontrivial = model.max_open + 1 >= L && model.max_open <= L + 1 ? true : limit_decides;
  Outcome o;
  uint8_t* in = (uint8_t*)malloc(n); memcpy(in, d, n);
#ifdef NEST_ASAN
  pipeline(in, n, o, true);
#else
  { Outcome tmp; pipeline(in, n, tmp, true); o.ast = std::move(tmp.ast); o.depth = tmp.depth; }   // observation on the normal stack
  run_bounded(in, n, o);
#endif
  free(in);
  auto fail = [&](const std::string& m) { r.ok = false; r.msg = "L=" + std::to_string(L) + ": " + m; va::release_all(); return r; };
  if (va::g.refused_total) { va::release_all(); r.skipped = true; return r; }
  if (model.accept) {
    if (!o.loaded) return fail("nesting never exceeds the limit (deepest " + std::to_string(model.max_open) + ") but cbor_load failed with " + ref::code_name(o.code) + "@" + std::to_string(o.pos));
    std::string why;
    if (o.read != model.read) return fail("read " + std::to_string(o.read) + ", expected " + std::to_string(model.read));
    if (!ref::node_equal(model.ast, o.ast, &why)) return fail("decoded tree differs from the reference at " + why);
    if (!o.pipeline_ok) return fail(o.note);
  } else {
    if (o.loaded) return fail(std::string("input rejected by the reference (") + ref::code_name(model.admissible[0].code) + "@" + std::to_string(model.admissible[0].pos) + ", deepest nesting " + std::to_string(model.max_open) + ") was accepted");
    if (limit_decides && !model.admits(o.code, o.pos)) {
      std::string exp; for (auto& v : model.admissible) exp += std::string(exp.empty() ? "" : " or ") + ref::code_name(v.code) + "@" + std::to_string(v.pos);
      return fail(std::string("input nests deeper than the limit: reported ") + ref::code_name(o.code) + "@" + std::to_string(o.pos) + ", expected " + exp + " (the head that would open level L+1)");
    }
  }
  if (va::g.live_blocks) return fail("blocks left allocated");
  return r;
}

static Result run_case(const std::string&, const Case& c) { return judge(c); }

// ------------------------------------------------------------------------------ generators
struct Op { gen::Bytes pre, post; const char* name; };
static const std::vector<Op>& ops() {
  static std::vector<Op> v = {{gen::B({0xc1}), {}, "tag"}, {gen::B({0x81}), {}, "array(1)"}, {gen::B({0x9f}), gen::B({0xff}), "indef array"}, {gen::B({0xa1}), gen::B({0x00}), "map key"},
                              {gen::B({0xa1, 0x00}), {}, "map value"}, {gen::B({0xbf}), gen::B({0x00, 0xff}), "indef map key"}, {gen::B({0xbf, 0x00}), gen::B({0xff}), "indef map value"},
                              {gen::B({0xd9, 0xd9, 0xf7}), {}, "tag16"}, {gen::B({0x98, 0x01}), {}, "array(1) wide head"}, {gen::B({0x82, 0x00}), {}, "array(2) second slot"}};
  return v;
}
// levels = number of container levels opened by openers; inner: 0 int, 1 chunked bstr (+1 level), 2 chunked tstr (+1 level), 3 empty array, 4 empty indefinite map (+1 level)
static gen::Bytes nest(size_t levels, uint64_t pattern, int inner) {
  gen::Bytes b; std::vector<int> seq(levels);
  for (size_t i = 0; i < levels; i++) seq[i] = pattern < 10 ? (int)pattern : (int)(vh::prand(pattern, 7, i) % ops().size());
  for (size_t i = 0; i < levels; i++) b.insert(b.end(), ops()[seq[i]].pre.begin(), ops()[seq[i]].pre.end());
  switch (inner) { case 0: b.push_back(0x00); break; case 1: b.insert(b.end(), {0x5f, 0x41, 0x00, 0xff}); break; case 2: b.insert(b.end(), {0x7f, 0x60, 0xff}); break; case 3: b.push_back(0x80); break; default: b.insert(b.end(), {0xbf, 0xff}); }
  for (size_t i = levels; i-- > 0;) b.insert(b.end(), ops()[seq[i]].post.begin(), ops()[seq[i]].post.end());
  return b;
}

static void run_campaigns(Ctx& ctx) {
  bool thorough = ctx.tier == "thorough";
  Case c; uint64_t idx = 0;
  auto run = [&](const char* camp, const gen::Bytes& b) { if (ctx.mine(idx++) && !ctx.stop()) { c.campaign = camp; c.data = b; ctx.exec(c); } };
  std::vector<long> depths = {(long)L - 1, (long)L, (long)L + 1, (long)L + 2, 4 * (long)L};
  if (L > 4) { depths.push_back(1); depths.push_back((long)L / 2); }
  uint64_t nmix = thorough ? 40 : 8;
  for (long dep : depths) {
    if (dep < 0) continue;
    for (int inner = 0; inner < 5; inner++) {
      bool extra = inner == 1 || inner == 2 || inner == 4;     // the innermost item is itself a level
      long levels = dep - (extra ? 1 : 0);
      if (levels < 0) continue;
      for (uint64_t p = 0; p < ops().size(); p++) run("NEST", nest((size_t)levels, p, inner));
      for (uint64_t m = 0; m < nmix; m++) run("NEST", nest((size_t)levels, 1000 + ctx.seed * 131 + m, inner));
      // truncated in the middle and just before the closing part
      gen::Bytes full = nest((size_t)levels, 2, inner);
      run("NEST", gen::Bytes(full.begin(), full.begin() + (long)(full.size() / 2)));
      if (!full.empty()) run("NEST", gen::Bytes(full.begin(), full.end() - 1));
    }
  }
  // width is not depth: many siblings, each a shallow nest, inside one indefinite array
  for (size_t sib : {L + 5, 3 * L + 1}) {
    if (sib > 20000) sib = 20000;
    for (long inner_levels : {0L, (long)L - 2, (long)L - 1, (long)L}) {
      if (inner_levels < 0) continue;
      gen::Bytes b = gen::B({0x9f}); gen::Bytes one = nest((size_t)inner_levels, 1, 0);
      size_t reps = inner_levels > 8 ? 3 : sib;
      for (size_t i = 0; i < reps; i++) b.insert(b.end(), one.begin(), one.end());
      b.push_back(0xff); run("NEST", b);
    }
  }
  // payload is not depth either: a string longer than the whole bounded stack, at the top and a few levels down
  { size_t big = (256u << 10) + (4u << 10) * L + 8192;
    for (uint8_t ib : {(uint8_t)0x5a, (uint8_t)0x7a}) for (size_t lv : {(size_t)0, L > 3 ? (size_t)3 : L - 1}) {
      gen::Bytes b(lv, 0x81); b.push_back(ib); for (int i = 3; i >= 0; i--) b.push_back((uint8_t)(big >> (8 * i)));
      b.resize(b.size() + big, 0x61); run("PAYLOAD", b);
    } }
  // enumerated small encodings exercise small limits from every opener / slot combination
  if (L <= 8) {
    gen::E2 e(gen::leaves_full(), [&](const gen::Bytes& b, int) { run("ENUM", b); });
    e.run(thorough || L <= 3 ? 3 : 2);
    gen::pairwise([&](const gen::Bytes& b) { run("ENUM", b); });
  }
  ctx.distinct_by_construction = false;
  ctx.campaign_exhaustive["NEST"] = true; ctx.campaign_exhaustive["PAYLOAD"] = true;
  ctx.notes["PAYLOAD"] = "a definite byte string and a definite text string longer than the bounded stack itself (256 KiB + 4 KiB x L + 8 KiB), at the top level and three levels down, through load / describe / serialize / copy / release";
  ctx.notes["NEST"] = "L=" + std::to_string(L) + ": nests from each of 10 opener kinds (tags, definite/indefinite arrays, maps in key and value position, wide heads, second slot) homogeneous and seeded mixes, at depths L-1, L, L+1, L+2, 4L (and 1, L/2), with an integer, a chunked byte/text string, an empty array or an empty indefinite map innermost; truncations; sibling-heavy inputs whose nesting stays within the limit" +
                      std::string(L <= 8 ? "; ENUM: every E2 / E2p encoding against the reference with this limit" : "");
}

int main(int argc, char** argv) {
  g_devnull = fopen("/dev/null", "w");
  cbor_set_allocs(va::vmalloc, va::vrealloc, va::vfree);
  va::g.single_cap = (size_t)1 << 24;
  vh::Driver drv{"drv_nest", run_campaigns, run_case};
  return vh::driver_main(argc, argv, drv);
}
