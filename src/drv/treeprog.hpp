// Byte-coded, self-normalising tree construction programs (C03, C07, C11, C13, C18).
// A program is any byte string; the interpreter is a stack machine whose every op is
// executable whatever the stack holds (operands are reduced modulo what is available), so the
// same format serves the enumerator, the seeded generator, rapidcheck and libFuzzer.
// The interpreter builds the libcbor tree through the public construction API and, alongside,
// the reference AST the calls are documented to produce.
#pragma once
#include <cstring>
#include <vector>
#include "cbor.h"
#include "ref/refcbor.hpp"

namespace tp {

struct Built { cbor_item_t* item; ref::Node ast; };

struct Reader {
  const uint8_t* p; size_t n, i = 0;
  uint8_t u8() { return i < n ? p[i++] : 0; }
  uint64_t be(int w) { uint64_t v = 0; for (int k = 0; k < w; k++) v = (v << 8) | u8(); return v; }
  bool done() const { return i >= n; }
};

static const uint64_t kBoundary[] = {0, 23, 24, 255, 256, 65535, 65536, 0xffffffffull, 0x100000000ull, ~0ull};

enum { OP_UINT8, OP_UINT16, OP_UINT32, OP_UINT64, OP_NEG8, OP_NEG16, OP_NEG32, OP_NEG64, OP_BSTR, OP_TSTR, OP_SIMPLE, OP_F2, OP_F4, OP_F8,
       OP_ARR_DEF, OP_ARR_INDEF, OP_MAP_DEF, OP_MAP_INDEF, OP_TAG, OP_BSTR_INDEF, OP_TSTR_INDEF, OP_DUP, OP_EMPTY, OP_NOP, OP_COUNT };

// Simple values 0..19 / 32..255 can be built and serialized but are rejected by libcbor's own decoder, so drivers
// that load the serialized tree back leave this off.
static bool allow_unassigned_simple = false;

struct Stats { size_t ops = 0, shared = 0, partial = 0, handleless = 0, late_handle = 0, unassigned_simple = 0, nan = 0, indef = 0, boundary = 0; bool alloc_failed = false; };

static inline float u2f(uint32_t u) { float f; memcpy(&f, &u, 4); return f; }
static inline double u2d(uint64_t u) { double f; memcpy(&f, &u, 8); return f; }

// Allocates the handle through the installed allocator (as set_handle requires).
static inline unsigned char* handle_copy(const uint8_t* d, size_t n) {
  unsigned char* h = (unsigned char*)_cbor_malloc(n);
  if (h && n) memcpy(h, d, n);
  return h;
}

struct Interp {
  std::vector<Built> st;
  Stats stats;
  size_t max_ops;
  explicit Interp(size_t maxops = 200) : max_ops(maxops) {}

  bool push(cbor_item_t* it, ref::Node&& n) {
    if (!it) { stats.alloc_failed = true; return false; }
    st.push_back({it, std::move(n)});
    return true;
  }
  void need(size_t k) {  // make sure k items are on the stack
    while (st.size() < k) { ref::Node n; n.type = 0; n.width = 0; n.value = st.size(); push(cbor_build_uint8((uint8_t)st.size()), std::move(n)); if (stats.alloc_failed) return; }
  }

  void make_int(int neg, int w, uint64_t v) {
    ref::Node n; n.type = neg ? 1 : 0; n.width = w; n.value = v;
    cbor_item_t* it = nullptr;
    // alternate between the build_* helpers and new_* + mark + set
    bool via_new = (v & 1) != 0;
    switch (w) {
      case 0: if (via_new) { it = cbor_new_int8(); if (it) { cbor_set_uint8(it, (uint8_t)v); if (neg) cbor_mark_negint(it); else cbor_mark_uint(it); } } else it = neg ? cbor_build_negint8((uint8_t)v) : cbor_build_uint8((uint8_t)v); break;
      case 1: if (via_new) { it = cbor_new_int16(); if (it) { cbor_set_uint16(it, (uint16_t)v); if (neg) cbor_mark_negint(it); else cbor_mark_uint(it); } } else it = neg ? cbor_build_negint16((uint16_t)v) : cbor_build_uint16((uint16_t)v); break;
      case 2: if (via_new) { it = cbor_new_int32(); if (it) { cbor_set_uint32(it, (uint32_t)v); if (neg) cbor_mark_negint(it); else cbor_mark_uint(it); } } else it = neg ? cbor_build_negint32((uint32_t)v) : cbor_build_uint32((uint32_t)v); break;
      default: if (via_new) { it = cbor_new_int64(); if (it) { cbor_set_uint64(it, v); if (neg) cbor_mark_negint(it); else cbor_mark_uint(it); } } else it = neg ? cbor_build_negint64(v) : cbor_build_uint64(v); break;
    }
    push(it, std::move(n));
  }

  cbor_item_t* make_defstring(int type, const uint8_t* d, size_t len, int how, ref::Node& n) {
    n.type = type; n.indef = false; n.bytes.assign(d, d + len);
    cbor_item_t* it = nullptr;
    if (type == 2) {
      if (how == 0) it = cbor_build_bytestring(d, len);
      else if (how == 1) { it = cbor_new_definite_bytestring(); if (it) { unsigned char* h = handle_copy(d, len); if (!h) { cbor_decref(&it); return nullptr; } cbor_bytestring_set_handle(it, h, len); } }
      else { it = cbor_new_definite_bytestring(); n.bytes.clear(); stats.handleless++; }   // no handle at all: length 0
    } else {
      if (how == 0) it = cbor_build_stringn((const char*)d, len);
      else if (how == 1) { it = cbor_new_definite_string(); if (it) { unsigned char* h = handle_copy(d, len); if (!h) { cbor_decref(&it); return nullptr; } cbor_string_set_handle(it, h, len); } }
      else { it = cbor_new_definite_string(); n.bytes.clear(); stats.handleless++; }
    }
    return it;
  }

  // attach the k topmost stack items (in stack order) to a freshly made container
  void run(const uint8_t* prog, size_t len) {
    Reader r{prog, len};
    while (!r.done() && stats.ops < max_ops && !stats.alloc_failed) {
      uint8_t b = r.u8(); int op = b % OP_COUNT; int p = b / OP_COUNT;  // p in 0..10
      stats.ops++;
      switch (op) {
        case OP_UINT8: case OP_NEG8: { static const uint64_t t8[] = {0, 23, 24, 255}; uint64_t v = p < 4 ? t8[p] : r.u8(); if (p < 4) stats.boundary++; make_int(op == OP_NEG8, 0, v); break; }
        case OP_UINT16: case OP_NEG16: { static const uint64_t t16[] = {0, 23, 255, 256, 65535}; uint64_t v = p < 5 ? t16[p] : r.be(2); if (p < 5) stats.boundary++; make_int(op == OP_NEG16, 1, v); break; }
        case OP_UINT32: case OP_NEG32: { static const uint64_t t32[] = {0, 24, 65535, 65536, 0xffffffffull, 0x80000000ull}; uint64_t v = p < 6 ? t32[p] : r.be(4); if (p < 6) stats.boundary++; make_int(op == OP_NEG32, 2, v); break; }
        case OP_UINT64: case OP_NEG64: { uint64_t v = p < 10 ? kBoundary[p] : r.be(8); if (p < 10) stats.boundary++; make_int(op == OP_NEG64, 3, v); break; }
        case OP_BSTR: case OP_TSTR: {
          size_t l = p <= 8 ? (size_t)p : p == 9 ? 0 : 24;
          uint8_t tmp[300]; if (p == 10) { l = 24 + r.u8() % 240; }
          for (size_t k = 0; k < l; k++) tmp[k] = r.u8();
          int how = p == 9 ? 2 : (int)(l & 1);
          ref::Node n; cbor_item_t* it = make_defstring(op == OP_BSTR ? 2 : 3, tmp, l, how, n);
          push(it, std::move(n));
          break;
        }
        case OP_SIMPLE: {
          ref::Node n; n.type = 7; n.width = 0; cbor_item_t* it = nullptr;
          int sel = p % 8; if (sel >= 6 && !allow_unassigned_simple) sel = p % 6;
          switch (sel) {
            case 6: case 7: {   // simple values without a meaning of their own: 0..19 and 32..255 (24..31 cannot be encoded)
              static const uint8_t tv[] = {0, 19, 32, 255}; uint8_t v = r.done() ? tv[p % 4] : r.u8(); if (v >= 24 && v < 32) v = (uint8_t)(v + 8);
              if (sel == 6) it = cbor_build_ctrl(v); else { it = cbor_new_ctrl(); if (it) cbor_set_ctrl(it, v); }
              n.value = v; if (v < 20 || v > 23) stats.unassigned_simple++;
              break;
            }
            case 0: it = cbor_build_bool(false); n.value = 20; break;
            case 1: it = cbor_build_bool(true); n.value = 21; break;
            case 2: it = cbor_new_null(); n.value = 22; break;
            case 3: it = cbor_new_undef(); n.value = 23; break;
            case 4: it = cbor_build_ctrl(21); n.value = 21; break;
            default: it = cbor_new_ctrl(); if (it) { cbor_set_ctrl(it, 20); cbor_set_bool(it, true); } n.value = 21; break;
          }
          push(it, std::move(n));
          break;
        }
        case OP_F2: {
          static const uint16_t tab[] = {0x0000, 0x8000, 0x7c00, 0xfc00, 0x7e00, 0x0001, 0x03ff, 0x0400, 0x7bff, 0x3c00};
          uint16_t h = p < 10 ? tab[p] : (uint16_t)r.be(2);
          ref::Node n; n.type = 7; n.width = 1; n.value = h; if (ref::half_is_nan(h)) stats.nan++;
          float f = u2f(ref::half_to_single_bits(h));
          cbor_item_t* it = (h & 1) ? cbor_build_float2(f) : cbor_new_float2();
          if (it && !(h & 1)) cbor_set_float2(it, f);
          push(it, std::move(n));
          break;
        }
        case OP_F4: {
          static const uint32_t tab[] = {0, 0x80000000u, 0x7f800000u, 0xff800000u, 0x7fc00000u, 0x7f800001u, 0xffc00000u, 1, 0x007fffffu, 0x3f800000u};
          uint32_t u = p < 10 ? tab[p] : (uint32_t)r.be(4);
          ref::Node n; n.type = 7; n.width = 2; n.value = u; if (ref::single_is_nan(u)) stats.nan++;
          cbor_item_t* it = (u & 1) ? cbor_build_float4(u2f(u)) : cbor_new_float4();
          if (it && !(u & 1)) cbor_set_float4(it, u2f(u));
          push(it, std::move(n));
          break;
        }
        case OP_F8: {
          static const uint64_t tab[] = {0, 0x8000000000000000ull, 0x7ff0000000000000ull, 0xfff0000000000000ull, 0x7ff8000000000000ull, 0x7ff0000000000001ull,
                                         0xfff8000000000000ull, 1, 0x000fffffffffffffull, 0x3ff0000000000000ull};
          uint64_t u = p < 10 ? tab[p] : r.be(8);
          ref::Node n; n.type = 7; n.width = 3; n.value = u; if (ref::double_is_nan(u)) stats.nan++;
          cbor_item_t* it = (u & 1) ? cbor_build_float8(u2d(u)) : cbor_new_float8();
          if (it && !(u & 1)) cbor_set_float8(it, u2d(u));
          push(it, std::move(n));
          break;
        }
        case OP_ARR_DEF: case OP_ARR_INDEF: {
          size_t k = (size_t)p % 6; need(k); if (stats.alloc_failed) break;
          size_t extra = op == OP_ARR_DEF ? r.u8() % 3 : 0;
          cbor_item_t* a = op == OP_ARR_DEF ? cbor_new_definite_array(k + extra) : cbor_new_indefinite_array();
          if (!a) { stats.alloc_failed = true; break; }
          if (extra) stats.partial++; if (op == OP_ARR_INDEF) stats.indef++;
          ref::Node n; n.type = 4; n.indef = op == OP_ARR_INDEF;
          size_t base = st.size() - k;
          for (size_t j = 0; j < k; j++) {
            bool ok = (j & 1) ? cbor_array_set(a, j, st[base + j].item) : cbor_array_push(a, st[base + j].item);
            if (!ok) { stats.alloc_failed = true; break; }
            n.kids.push_back(st[base + j].ast);
          }
          for (size_t j = 0; j < k; j++) { cbor_decref(&st[base + j].item); }
          st.resize(base);
          if (stats.alloc_failed) { cbor_decref(&a); break; }
          push(a, std::move(n));
          break;
        }
        case OP_MAP_DEF: case OP_MAP_INDEF: {
          size_t k = (size_t)p % 4; need(2 * k); if (stats.alloc_failed) break;
          size_t extra = op == OP_MAP_DEF ? r.u8() % 3 : 0;
          cbor_item_t* m = op == OP_MAP_DEF ? cbor_new_definite_map(k + extra) : cbor_new_indefinite_map();
          if (!m) { stats.alloc_failed = true; break; }
          if (extra) stats.partial++; if (op == OP_MAP_INDEF) stats.indef++;
          ref::Node n; n.type = 5; n.indef = op == OP_MAP_INDEF;
          size_t base = st.size() - 2 * k;
          for (size_t j = 0; j < k; j++) {
            struct cbor_pair pr; pr.key = st[base + 2 * j].item; pr.value = st[base + 2 * j + 1].item;
            if (!cbor_map_add(m, pr)) { stats.alloc_failed = true; break; }
            n.kids.push_back(st[base + 2 * j].ast); n.kids.push_back(st[base + 2 * j + 1].ast);
          }
          for (size_t j = 0; j < 2 * k; j++) cbor_decref(&st[base + j].item);
          st.resize(base);
          if (stats.alloc_failed) { cbor_decref(&m); break; }
          push(m, std::move(n));
          break;
        }
        case OP_TAG: {
          need(1); if (stats.alloc_failed) break;
          uint64_t v = p < 10 ? kBoundary[p] : r.be(8); if (p < 10) stats.boundary++;
          Built top = std::move(st.back()); st.pop_back();
          cbor_item_t* t;
          if (v & 1) t = cbor_build_tag(v, top.item);
          else { t = cbor_new_tag(v); if (t) cbor_tag_set_item(t, top.item); }
          cbor_decref(&top.item);
          if (!t) { stats.alloc_failed = true; break; }
          ref::Node n; n.type = 6; n.value = v; n.kids.push_back(std::move(top.ast));
          push(t, std::move(n));
          break;
        }
        case OP_BSTR_INDEF: case OP_TSTR_INDEF: {
          int type = op == OP_BSTR_INDEF ? 2 : 3;
          cbor_item_t* s = type == 2 ? cbor_new_indefinite_bytestring() : cbor_new_indefinite_string();
          if (!s) { stats.alloc_failed = true; break; }
          stats.indef++;
          ref::Node n; n.type = type; n.indef = true;
          size_t chunks = (size_t)p % 5;
          for (size_t j = 0; j < chunks && !stats.alloc_failed; j++) {
            uint8_t cb = r.u8(); size_t l = cb % 5; uint8_t tmp[8]; for (size_t q = 0; q < l; q++) tmp[q] = r.u8();
            int hsel = (cb >> 4) % 4;   // 0 build, 1 new + set_handle, 2 no handle at all, 3 attached empty, payload set afterwards
            ref::Node cn; cbor_item_t* c = make_defstring(type, tmp, l, hsel == 3 ? 2 : hsel, cn);
            if (!c) { stats.alloc_failed = true; break; }
            bool ok = type == 2 ? cbor_bytestring_add_chunk(s, c) : cbor_string_add_chunk(s, c);
            if (ok && hsel == 3) {
              unsigned char* h = handle_copy(tmp, l);
              if (!h) { cbor_decref(&c); stats.alloc_failed = true; break; }
              if (type == 2) cbor_bytestring_set_handle(c, h, l); else cbor_string_set_handle(c, h, l);
              cn.bytes.assign(tmp, tmp + l); stats.handleless--; stats.late_handle++;
            }
            cbor_decref(&c);
            if (!ok) { stats.alloc_failed = true; break; }
            n.kids.push_back(std::move(cn));
          }
          if (stats.alloc_failed) { cbor_decref(&s); break; }
          push(s, std::move(n));
          break;
        }
        case OP_DUP: {
          if (st.empty()) break;
          size_t k = (size_t)p % st.size();
          Built d{cbor_incref(st[st.size() - 1 - k].item), st[st.size() - 1 - k].ast};
          stats.shared++;
          st.push_back(std::move(d));
          break;
        }
        case OP_EMPTY: {
          ref::Node n; cbor_item_t* it = nullptr;
          switch (p % 6) {
            case 0: it = cbor_new_definite_array(0); n.type = 4; break;
            case 1: it = cbor_new_definite_array(2); n.type = 4; stats.partial++; break;
            case 2: it = cbor_new_indefinite_array(); n.type = 4; n.indef = true; stats.indef++; break;
            case 3: it = cbor_new_definite_map(0); n.type = 5; break;
            case 4: it = cbor_new_indefinite_map(); n.type = 5; n.indef = true; stats.indef++; break;
            default: it = cbor_new_definite_map(3); n.type = 5; stats.partial++; break;
          }
          push(it, std::move(n));
          break;
        }
        default: break;
      }
    }
  }

  // Collapse the stack into one root (an indefinite array of everything if more than one item).
  bool finish(Built& root) {
    if (stats.alloc_failed) { release(); return false; }
    need(1); if (stats.alloc_failed) { release(); return false; }
    if (st.size() == 1) { root = std::move(st[0]); st.clear(); return true; }
    cbor_item_t* a = cbor_new_indefinite_array();
    if (!a) { release(); return false; }
    ref::Node n; n.type = 4; n.indef = true;
    for (auto& b : st) { if (!cbor_array_push(a, b.item)) { cbor_decref(&a); release(); return false; } n.kids.push_back(b.ast); }
    for (auto& b : st) cbor_decref(&b.item);
    st.clear();
    root.item = a; root.ast = std::move(n);
    return true;
  }
  void release() { for (auto& b : st) if (b.item) cbor_decref(&b.item); st.clear(); }
};

// convenience: program bytes -> tree (+ intended AST).  Returns false if an allocation was refused.
static inline bool build(const uint8_t* prog, size_t len, Built& root, Stats* stats = nullptr, size_t max_ops = 200) {
  Interp in(max_ops);
  in.run(prog, len);
  bool ok = in.finish(root);
  if (stats) *stats = in.stats;
  return ok;
}

}  // namespace tp
