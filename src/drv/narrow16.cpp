#define NARROW_T uint16_t
#define NARROW_PREFIX n16_
#include "drv/narrow_impl.hpp"
