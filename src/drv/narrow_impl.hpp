// The REAL src/cbor/internal/memory_utils.c compiled with size_t narrowed to NARROW_T (8 or 16
// bits): every system and libcbor header is included first with the true size_t, then size_t is
// redefined and the source file is textually included with its five functions renamed and
// _cbor_malloc/_cbor_realloc mapped to recording stubs.  All operand pairs can then be enumerated.
#include <cstdint>
#include <cstddef>
#include <cstdlib>
#include <cstring>
#include <stdbool.h>
#include <string.h>
#include "cbor.h"
extern "C" {
#include "cbor/internal/memory_utils.h"
}
#include "drv/narrow.hpp"

#define NCAT2(a, b) a##b
#define NCAT(a, b) NCAT2(a, b)
#define NN(name) NCAT(NARROW_PREFIX, name)

namespace { NarrowLog* g_log; }
static void* NN(stub_malloc)(NARROW_T n) { g_log->called = true; g_log->size = n; return (void*)0x10; }
static void* NN(stub_realloc)(void*, NARROW_T n) { g_log->called = true; g_log->size = n; return (void*)0x10; }

#define size_t NARROW_T
#define _cbor_highest_bit NN(highest_bit)
#define _cbor_safe_to_multiply NN(safe_to_multiply)
#define _cbor_safe_to_add NN(safe_to_add)
#define _cbor_safe_signaling_add NN(safe_signaling_add)
#define _cbor_alloc_multiple NN(alloc_multiple)
#define _cbor_realloc_multiple NN(realloc_multiple)
#define _cbor_malloc NN(stub_malloc)
#define _cbor_realloc NN(stub_realloc)
// the declarations the source expects (its own header is already include-guarded away)
size_t _cbor_highest_bit(size_t number);
bool _cbor_safe_to_multiply(size_t a, size_t b);
bool _cbor_safe_to_add(size_t a, size_t b);
size_t _cbor_safe_signaling_add(size_t a, size_t b);
void* _cbor_alloc_multiple(size_t item_size, size_t item_count);
void* _cbor_realloc_multiple(void* pointer, size_t item_size, size_t item_count);
#include MEMUTILS_C
#undef size_t
#undef _cbor_malloc
#undef _cbor_realloc

NarrowFns NN(fns)(NarrowLog* log) {
  g_log = log;
  NarrowFns f;
  f.bits = sizeof(NARROW_T) * 8;
  f.safe_mul = [](uint64_t a, uint64_t b) { return NN(safe_to_multiply)((NARROW_T)a, (NARROW_T)b); };
  f.safe_add = [](uint64_t a, uint64_t b) { return NN(safe_to_add)((NARROW_T)a, (NARROW_T)b); };
  f.sig_add = [](uint64_t a, uint64_t b) { return (uint64_t)NN(safe_signaling_add)((NARROW_T)a, (NARROW_T)b); };
  f.alloc_mul = [](uint64_t s, uint64_t n) { return NN(alloc_multiple)((NARROW_T)s, (NARROW_T)n) != nullptr; };
  f.realloc_mul = [](uint64_t s, uint64_t n) { return NN(realloc_multiple)((void*)0x20, (NARROW_T)s, (NARROW_T)n) != nullptr; };
  return f;
}
