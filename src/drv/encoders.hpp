// Table of every low-level cbor_encode_* function, with the RFC 8949 head each must write.
#pragma once
#include <cstring>
#include "cbor.h"
#include "ref/refcbor.hpp"
enum Enc { EN_UINT8, EN_UINT16, EN_UINT32, EN_UINT64, EN_UINT, EN_NEGINT8, EN_NEGINT16, EN_NEGINT32, EN_NEGINT64, EN_NEGINT,
           EN_BSTR_START, EN_TSTR_START, EN_ARR_START, EN_MAP_START, EN_TAG, EN_IBSTR, EN_ITSTR, EN_IARR, EN_IMAP,
           EN_BOOL, EN_NULL, EN_UNDEF, EN_BREAK, EN_CTRL, EN_HALF, EN_SINGLE, EN_DOUBLE, EN_COUNT };
static const char* enc_name(int e) {
  static const char* n[] = {"uint8", "uint16", "uint32", "uint64", "uint", "negint8", "negint16", "negint32", "negint64", "negint", "bytestring_start", "string_start",
                            "array_start", "map_start", "tag", "indef_bytestring_start", "indef_string_start", "indef_array_start", "indef_map_start", "bool", "null", "undef",
                            "break", "ctrl", "half", "single", "double"};
  return e < EN_COUNT ? n[e] : "?";
}
static float u2f(uint32_t u) { float f; memcpy(&f, &u, 4); return f; }
static double u2d(uint64_t u) { double f; memcpy(&f, &u, 8); return f; }
static size_t call_encoder(int e, uint64_t v, unsigned char* b, size_t n) {
  switch (e) {
    case EN_UINT8: return cbor_encode_uint8((uint8_t)v, b, n); case EN_UINT16: return cbor_encode_uint16((uint16_t)v, b, n);
    case EN_UINT32: return cbor_encode_uint32((uint32_t)v, b, n); case EN_UINT64: return cbor_encode_uint64(v, b, n); case EN_UINT: return cbor_encode_uint(v, b, n);
    case EN_NEGINT8: return cbor_encode_negint8((uint8_t)v, b, n); case EN_NEGINT16: return cbor_encode_negint16((uint16_t)v, b, n);
    case EN_NEGINT32: return cbor_encode_negint32((uint32_t)v, b, n); case EN_NEGINT64: return cbor_encode_negint64(v, b, n); case EN_NEGINT: return cbor_encode_negint(v, b, n);
    case EN_BSTR_START: return cbor_encode_bytestring_start((size_t)v, b, n); case EN_TSTR_START: return cbor_encode_string_start((size_t)v, b, n);
    case EN_ARR_START: return cbor_encode_array_start((size_t)v, b, n); case EN_MAP_START: return cbor_encode_map_start((size_t)v, b, n); case EN_TAG: return cbor_encode_tag(v, b, n);
    case EN_IBSTR: return cbor_encode_indef_bytestring_start(b, n); case EN_ITSTR: return cbor_encode_indef_string_start(b, n);
    case EN_IARR: return cbor_encode_indef_array_start(b, n); case EN_IMAP: return cbor_encode_indef_map_start(b, n);
    case EN_BOOL: return cbor_encode_bool(v != 0, b, n); case EN_NULL: return cbor_encode_null(b, n); case EN_UNDEF: return cbor_encode_undef(b, n);
    case EN_BREAK: return cbor_encode_break(b, n); case EN_CTRL: return cbor_encode_ctrl((uint8_t)v, b, n);
    case EN_HALF: return cbor_encode_half(u2f((uint32_t)v), b, n); case EN_SINGLE: return cbor_encode_single(u2f((uint32_t)v), b, n); case EN_DOUBLE: return cbor_encode_double(u2d(v), b, n);
  }
  return 0;
}
// the RFC 8949 head the encoder must write; returns false if (e, v) is outside the encoder's domain
static bool ref_head(int e, uint64_t v, ref::Bytes& o) {
  switch (e) {
    case EN_UINT8: case EN_NEGINT8: if (v > 0xff) return false; ref::put_head(o, e == EN_UINT8 ? 0 : 1, v, v < 24 ? 0 : 1); return true;
    case EN_UINT16: case EN_NEGINT16: if (v > 0xffff) return false; ref::put_head(o, e == EN_UINT16 ? 0 : 1, v, 2); return true;
    case EN_UINT32: case EN_NEGINT32: if (v > 0xffffffffull) return false; ref::put_head(o, e == EN_UINT32 ? 0 : 1, v, 4); return true;
    case EN_UINT64: case EN_NEGINT64: ref::put_head(o, e == EN_UINT64 ? 0 : 1, v, 8); return true;
    case EN_UINT: ref::put_head(o, 0, v); return true; case EN_NEGINT: ref::put_head(o, 1, v); return true;
    case EN_BSTR_START: ref::put_head(o, 2, v); return true; case EN_TSTR_START: ref::put_head(o, 3, v); return true;
    case EN_ARR_START: ref::put_head(o, 4, v); return true; case EN_MAP_START: ref::put_head(o, 5, v); return true; case EN_TAG: ref::put_head(o, 6, v); return true;
    case EN_IBSTR: o.push_back(0x5f); return true; case EN_ITSTR: o.push_back(0x7f); return true; case EN_IARR: o.push_back(0x9f); return true; case EN_IMAP: o.push_back(0xbf); return true;
    case EN_BOOL: o.push_back(v ? 0xf5 : 0xf4); return true; case EN_NULL: o.push_back(0xf6); return true; case EN_UNDEF: o.push_back(0xf7); return true; case EN_BREAK: o.push_back(0xff); return true;
    case EN_CTRL: if (v > 0xff || (v >= 24 && v <= 31)) return false; ref::put_head(o, 7, v, v < 24 ? 0 : 1); return true;  // 24..31 have no RFC encoding
    case EN_HALF: {  // domain: floats that are NaN or exactly representable as a half
      uint16_t h; uint32_t f = (uint32_t)v;
      if (ref::single_is_nan(f)) h = 0x7e00; else if (!ref::single_to_half_exact(f, &h)) return false;
      ref::put_head(o, 7, h, 2); return true;
    }
    case EN_SINGLE: { uint32_t f = (uint32_t)v; if (ref::single_is_nan(f)) f = 0x7fc00000u; ref::put_head(o, 7, f, 4); return true; }
    case EN_DOUBLE: { uint64_t f = v; if (ref::double_is_nan(f)) f = 0x7ff8000000000000ull; ref::put_head(o, 7, f, 8); return true; }
  }
  return false;
}
