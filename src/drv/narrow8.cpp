#define NARROW_T uint8_t
#define NARROW_PREFIX n8_
#include "drv/narrow_impl.hpp"
