// drv_ro — decides C18: read-only operations never write to the items they inspect.
// Deterministic mode (flavours plain-O0 / plain-O2): the tree is built inside arena 0 of the arena
// allocator, the arena is write-protected, new allocations go to arena 1, and every read-only
// operation is run on every node; a SIGSEGV whose address lies in the protected arena is a
// store — even a transient one — into the inspected tree.
// Concurrent mode (flavour tsan): four threads run the same read-only set on one shared tree;
// ThreadSanitizer reports any write.
// Trees: DEC = cbor_load(data); PROG = tp::build(data).
#include <cstdio>
#include <cstdlib>
#include <cstring>
#include <csignal>
#include <csetjmp>
#include <string>
#include <thread>
#include "cbor.h"
#include "common/harness.hpp"
#include "alloc/valloc.hpp"
#include "alloc/arena.hpp"
#include "ref/refcbor.hpp"
#include "obs/observe.hpp"
#include "gen/enum.hpp"
#include "drv/treeprog.hpp"

using vh::Case; using vh::Result; using vh::Ctx;

#if defined(__has_feature)
#if __has_feature(thread_sanitizer)
#define RO_TSAN 1
#endif
#endif

static thread_local volatile uint64_t g_sink;
static thread_local const char* volatile g_op = "";
static sigjmp_buf g_jmp;
static volatile sig_atomic_t g_armed;
static void* volatile g_fault_addr;

static void on_segv(int, siginfo_t* si, void*) {
  if (g_armed && ar::g.a[0].contains(si->si_addr)) { g_fault_addr = si->si_addr; siglongjmp(g_jmp, 1); }
  const char* m = "SIGSEGV outside the protected arena\n"; if (write(2, m, strlen(m))) {}
  abort();
}

// every predicate / getter that does not hand out a new reference, on one node
static void read_node(const cbor_item_t* it) {
  uint64_t s = 0;
  g_op = "cbor_typeof / cbor_isa_* / cbor_is_* / cbor_refcount";
  s += cbor_typeof(it) + cbor_isa_uint(it) + cbor_isa_negint(it) + cbor_isa_bytestring(it) + cbor_isa_string(it) + cbor_isa_array(it) + cbor_isa_map(it) + cbor_isa_tag(it) + cbor_isa_float_ctrl(it);
  s += cbor_is_int(it) + cbor_is_float(it) + cbor_is_bool(it) + cbor_is_null(it) + cbor_is_undef(it) + cbor_refcount(it);
  switch (cbor_typeof(it)) {
    case CBOR_TYPE_UINT: case CBOR_TYPE_NEGINT:
      g_op = "cbor_int_get_width / cbor_get_uint* / cbor_get_int";
      switch (cbor_int_get_width(it)) { case CBOR_INT_8: s += cbor_get_uint8(it); break; case CBOR_INT_16: s += cbor_get_uint16(it); break; case CBOR_INT_32: s += cbor_get_uint32(it); break; default: s += cbor_get_uint64(it); }
      s += cbor_get_int(it);
      break;
    case CBOR_TYPE_BYTESTRING:
      g_op = "cbor_bytestring_* getters";
      s += cbor_bytestring_length(it) + cbor_bytestring_is_definite(it) + cbor_bytestring_is_indefinite(it);
      if (cbor_bytestring_is_definite(it)) { const unsigned char* h = cbor_bytestring_handle(it); for (size_t i = 0; i < cbor_bytestring_length(it); i++) s += h[i]; }
      else { s += cbor_bytestring_chunk_count(it); s += (uint64_t)(uintptr_t)cbor_bytestring_chunks_handle(it); }
      break;
    case CBOR_TYPE_STRING:
      g_op = "cbor_string_* getters";
      s += cbor_string_length(it) + cbor_string_is_definite(it) + cbor_string_is_indefinite(it);
      g_op = "cbor_string_codepoint_count";
      s += cbor_string_codepoint_count(it);
      g_op = "cbor_string_* getters";
      if (cbor_string_is_definite(it)) { const unsigned char* h = cbor_string_handle(it); for (size_t i = 0; i < cbor_string_length(it); i++) s += h[i]; }
      else { s += cbor_string_chunk_count(it); s += (uint64_t)(uintptr_t)cbor_string_chunks_handle(it); }
      break;
    case CBOR_TYPE_ARRAY:
      g_op = "cbor_array_size / allocated / is_definite / handle";
      s += cbor_array_size(it) + cbor_array_allocated(it) + cbor_array_is_definite(it) + cbor_array_is_indefinite(it) + (uint64_t)(uintptr_t)cbor_array_handle(it);
      break;
    case CBOR_TYPE_MAP:
      g_op = "cbor_map_size / allocated / is_definite / handle";
      s += cbor_map_size(it) + cbor_map_allocated(it) + cbor_map_is_definite(it) + cbor_map_is_indefinite(it) + (uint64_t)(uintptr_t)cbor_map_handle(it);
      break;
    case CBOR_TYPE_TAG:
      g_op = "cbor_tag_value";
      s += cbor_tag_value(it);
      break;
    case CBOR_TYPE_FLOAT_CTRL:
      g_op = "cbor_float_get_width / cbor_float_ctrl_is_ctrl / value getters";
      s += cbor_float_get_width(it) + cbor_float_ctrl_is_ctrl(it);
      if (cbor_float_ctrl_is_ctrl(it)) { s += cbor_ctrl_value(it); if (cbor_is_bool(it)) s += cbor_get_bool(it); }
      else {
        double v = cbor_float_get_float(it); s += (uint64_t)(v == v);
        if (cbor_float_get_width(it) == CBOR_FLOAT_16) s += (uint64_t)(cbor_float_get_float2(it) > 0);
        else if (cbor_float_get_width(it) == CBOR_FLOAT_32) s += (uint64_t)(cbor_float_get_float4(it) > 0);
        else s += (uint64_t)(cbor_float_get_float8(it) > 0);
      }
      break;
  }
  g_sink += s;
}

// the whole read-only set on a tree; `nodes` = every node (collected before protection)
static void read_tree(const cbor_item_t* root, const std::vector<const cbor_item_t*>& nodes, unsigned char* outbuf, size_t outcap, bool allow_alloc) {
  for (const cbor_item_t* n : nodes) {
    read_node(n);
    g_op = "cbor_serialized_size (on a sub-item)"; g_sink += cbor_serialized_size(n);
  }
  g_op = "cbor_serialized_size"; size_t sz = cbor_serialized_size(root);
  g_op = "cbor_serialize"; if (sz && sz <= outcap) g_sink += cbor_serialize(root, outbuf, sz);
  g_op = "cbor_serialize (buffer too small)"; g_sink += cbor_serialize(root, outbuf, sz > 1 ? sz - 1 : 0);
  if (allow_alloc) { g_op = "cbor_serialize_alloc"; unsigned char* b = nullptr; size_t bl = 0; g_sink += cbor_serialize_alloc(root, &b, &bl); if (b) _cbor_free(b); }
  // each typed serializer on the root
  g_op = "cbor_serialize_<type>";
  switch (cbor_typeof(root)) {
    case CBOR_TYPE_UINT: g_sink += cbor_serialize_uint(root, outbuf, outcap); break; case CBOR_TYPE_NEGINT: g_sink += cbor_serialize_negint(root, outbuf, outcap); break;
    case CBOR_TYPE_BYTESTRING: g_sink += cbor_serialize_bytestring(root, outbuf, outcap); break; case CBOR_TYPE_STRING: g_sink += cbor_serialize_string(root, outbuf, outcap); break;
    case CBOR_TYPE_ARRAY: g_sink += cbor_serialize_array(root, outbuf, outcap); break; case CBOR_TYPE_MAP: g_sink += cbor_serialize_map(root, outbuf, outcap); break;
    case CBOR_TYPE_TAG: g_sink += cbor_serialize_tag(root, outbuf, outcap); break; default: g_sink += cbor_serialize_float_ctrl(root, outbuf, outcap); break;
  }
}

static cbor_item_t* make_tree(const Case& c) {
  if (c.campaign == "DEC") { struct cbor_load_result r; return cbor_load(c.data.data(), c.data.size(), &r); }
  tp::Built b; if (!tp::build(c.data.data(), c.data.size(), b)) return nullptr; return b.item;
}

static unsigned char g_out[1 << 16];

static Result judge(const Case& c) {
  Result r; r.klass = c.campaign.c_str();
#ifdef RO_TSAN
  va::reset_counters();
  cbor_item_t* t = make_tree(c);
  if (!t) { va::release_all(); r.skipped = true; return r; }
  obs::Observation o = obs::observe(t);
  std::vector<const cbor_item_t*> nodes; for (auto& ni : o.nodes) nodes.push_back(ni.item);
  for (auto& ni : o.nodes) if (ni.type == 6 || ni.type == 4 || ni.type == 5 || ni.depth > 1) r.nontrivial = true;
  std::thread th[4];
  for (int i = 0; i < 4; i++) th[i] = std::thread([&, i]() { static thread_local unsigned char out[1 << 16]; for (int rep = 0; rep < 3; rep++) read_tree(t, nodes, out, sizeof out, i == 0); });
  for (auto& x : th) x.join();
  cbor_decref(&t);
  va::release_all();
  return r;
#else
  ar::reset_all(); ar::g.cur = 0;
  cbor_item_t* t = make_tree(c);
  if (!t || ar::g.exhausted) { r.skipped = true; return r; }
  obs::Observation o = obs::observe(t);
  std::vector<const cbor_item_t*> nodes; for (auto& ni : o.nodes) nodes.push_back(ni.item);
  for (auto& ni : o.nodes) if (ni.type == 6 || ni.type == 4 || ni.type == 5 || ni.depth > 1) r.nontrivial = true;
  size_t used = ar::g.a[0].used;
  uint64_t before = vh::fnv1a(ar::g.a[0].base, used);
  ar::g.cur = 1;
  ar::g.a[0].protect(true);
  g_armed = 1; g_fault_addr = nullptr;
  std::string msg;
  if (sigsetjmp(g_jmp, 1) == 0) read_tree(t, nodes, g_out, sizeof g_out, true);
  else { char b[160]; snprintf(b, sizeof b, "%s stored into the inspected tree (write fault at arena offset %zu while the tree was write-protected)", (const char*)g_op, (size_t)((uint8_t*)g_fault_addr - ar::g.a[0].base)); msg = b; }
  g_armed = 0;
  ar::g.a[0].protect(false);
  if (msg.empty() && vh::fnv1a(ar::g.a[0].base, used) != before) msg = "byte image of the tree changed across the read-only operations";
  ar::g.cur = 0;
  cbor_decref(&t);
  if (!msg.empty()) { r.ok = false; r.msg = msg; }
  return r;
#endif
}

static Result run_case(const std::string&, const Case& c) { return judge(c); }

static void run_campaigns(Ctx& ctx) {
  bool thorough = ctx.tier == "thorough";
  Case c; uint64_t idx = 0;
#ifdef RO_TSAN
  const uint64_t nrand = thorough ? 200000 : 15000; const int e2n = 2;
#else
  const uint64_t nrand = thorough ? 6000000 : 600000; const int e2n = thorough ? 3 : 2;
#endif
  c.campaign = "DEC";
  { gen::E2 e(gen::leaves_full(), [&](const gen::Bytes& b, int) { if (ctx.mine(idx++) && !ctx.stop()) { c.data = b; ctx.exec(c); } }); e.run(e2n); }
  gen::pairwise([&](const gen::Bytes& b) { if (ctx.mine(idx++) && !ctx.stop()) { c.data = b; ctx.exec(c); } });
  c.campaign = "PROG";
  for (unsigned a = 0; a < 256; a++) if (ctx.mine(idx++)) { c.data = {(uint8_t)a}; ctx.exec(c); }
#ifndef RO_TSAN
  for (unsigned a = 0; a < 65536 && !ctx.stop(); a++) if (ctx.mine(idx++)) { c.data = {(uint8_t)(a >> 8), (uint8_t)a}; ctx.exec(c); }
#endif
  for (uint64_t i = 0; i < nrand && !ctx.stop(); i++) {
    if (!ctx.mine(idx++)) continue;
    size_t len = 2 + (size_t)(vh::prand(ctx.seed, 181, i) % 40);
    c.data.resize(len);
    for (size_t k = 0; k < len; k++) { uint64_t x = vh::prand(ctx.seed, 182, i * 64 + k); uint8_t b = (uint8_t)x; if ((x >> 8) % 3 == 0) b = (uint8_t)(tp::OP_ARR_DEF + (int)((x >> 16) % 9) + tp::OP_COUNT * (int)((x >> 24) % 10)); c.data[k] = b; }
    ctx.exec(c);
    if ((i & 0x3ff) == 0 && ctx.out_of_time()) break;
  }
  ctx.distinct_by_construction = false;
#ifdef RO_TSAN
  ctx.notes["mode"] = "concurrent readers: four threads run the read-only set three times each on one shared tree under ThreadSanitizer";
#else
  ctx.notes["mode"] = "write-protected arena: the tree lives in an mmap arena that is mprotect(PROT_READ)ed while cbor_serialize, cbor_serialized_size, cbor_serialize_alloc, the typed serializers and every predicate / getter that hands out no reference run on every node";
#endif
}

int main(int argc, char** argv) {
  tp::allow_unassigned_simple = true;
#ifdef RO_TSAN
  cbor_set_allocs(va::vmalloc, va::vrealloc, va::vfree);
  va::g.locked = true; va::g.single_cap = (size_t)1 << 24;
#else
  ar::g.a[0].init((size_t)64 << 20); ar::g.a[1].init((size_t)16 << 20);
  cbor_set_allocs(ar::amalloc, ar::arealloc, ar::afree);
  struct sigaction sa; memset(&sa, 0, sizeof sa); sa.sa_sigaction = on_segv; sa.sa_flags = SA_SIGINFO | SA_NODEFER; sigaction(SIGSEGV, &sa, nullptr);
#endif
  vh::Driver drv{"drv_ro", run_campaigns, run_case};
  return vh::driver_main(argc, argv, drv);
}
