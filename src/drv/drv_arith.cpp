// drv_arith — decides C20: size arithmetic never wraps.
//   GUARD   aux[0]=a, aux[1]=b : the five guard/allocation helpers of memory_utils.c at 64 bits,
//           oracle in unsigned __int128 (needs the internal header; skipped with NO_INTERNALS)
//   NARROW  aux[0]=width (8|16), aux[1]=a : the same source compiled with an 8-/16-bit size_t, for
//           ALL b (exhaustive over operand pairs)
//   NEWC    aux[0]=kind (0 array, 1 map), aux[1]=n : cbor_new_definite_array/map(n)
//   HEAD    aux[0]=kind, aux[1]=n : cbor_load of the 9-byte head 9B/BB n
//   GROWF   aux[0]=kind (0 array push, 1 map add, 2 bytestring chunk, 3 string chunk), aux[1]=forged capacity
//   SSIZE   aux[0]=shape, aux[1]=L1, aux[2]=L2 : cbor_serialized_size over declared lengths L1, L2
#include <cstdio>
#include <cstdlib>
#include <cstring>
#include <string>
#include "cbor.h"
#include "common/harness.hpp"
#include "alloc/valloc.hpp"
#include "ref/refcbor.hpp"
#ifndef NO_INTERNALS
extern "C" {
#include "cbor/internal/memory_utils.h"
}
#include "drv/narrow.hpp"
#endif

using vh::Case; using vh::Result; using vh::Ctx;
typedef unsigned __int128 u128;
static const u128 SZMAX = (u128)SIZE_MAX;

static std::string u64s(uint64_t v) { char b[32]; snprintf(b, sizeof b, "0x%llx", (unsigned long long)v); return b; }

// every size the allocator saw since reset (tiny cap: nothing large is ever really allocated)
static void rec_reset() { va::reset_counters(); va::g.log_sizes = true; va::g.size_log.clear(); va::g.granted_log.clear(); }

#ifndef NO_INTERNALS
static Result judge_guard(uint64_t a, uint64_t b) {
  Result r; r.klass = "GUARD";
  u128 prod = (u128)a * b, sum = (u128)a + b;
  r.nontrivial = (prod > (SZMAX >> 2) && prod < (SZMAX << 2)) || (sum > (SZMAX >> 1));
  auto fail = [&](const std::string& m) { r.ok = false; r.msg = m + " for a=" + u64s(a) + " b=" + u64s(b); return r; };
  if (_cbor_safe_to_multiply(a, b) && prod > SZMAX) return fail("_cbor_safe_to_multiply answered true although a*b does not fit in size_t");
  if (_cbor_safe_to_add(a, b) && sum > SZMAX) return fail("_cbor_safe_to_add answered true although a+b does not fit in size_t");
  size_t s = _cbor_safe_signaling_add(a, b);
  if (s != 0 && (u128)s != sum) return fail("_cbor_safe_signaling_add returned " + u64s(s) + ", neither 0 nor the exact sum");
  for (int which = 0; which < 2; which++) {
    rec_reset();
    void* p = which == 0 ? _cbor_alloc_multiple(a, b) : _cbor_realloc_multiple(nullptr, a, b);
    bool asked = !va::g.size_log.empty();
    if (asked && (u128)va::g.size_log[0] < prod) { if (p) va::vfree(p); return fail(std::string(which ? "_cbor_realloc_multiple" : "_cbor_alloc_multiple") + " asked the allocator for " + u64s(va::g.size_log[0]) + " bytes, fewer than item_size*item_count"); }
    if (p && !asked) return fail("helper returned a pointer without asking the allocator");
    if (p) va::vfree(p);
  }
  va::g.log_sizes = false;
  return r;
}
// The narrowed build is only a generator of candidate witnesses: a legitimate source may not be narrowable at all
// (preprocessor tests on SIZE_MAX, constants of the real width).  A discrepancy found at width w is scaled up to 64-bit
// operands (a << s1, b << s2 with s1 + s2 = 64 - w, so the exact result still does not fit) and only reported if the
// real 64-bit function misbehaves on one of them, judged by 128-bit arithmetic.
static bool confirm64(int what, uint64_t a, uint64_t b, unsigned w, std::string& msg) {
  for (unsigned s1 = 0; s1 <= 64 - w; s1++) {
    unsigned s2 = 64 - w - s1;
    uint64_t A, B;
    if (what == 1 || what == 2) { if (s1) break; A = a << (64 - w); B = b << (64 - w); }   // sums scale by one common factor
    else { A = a << s1; B = b << s2; }
    u128 prod = (u128)A * B, sum = (u128)A + B;
    switch (what) {
      case 0: if (_cbor_safe_to_multiply(A, B) && prod > SZMAX) { msg = "_cbor_safe_to_multiply(" + u64s(A) + ", " + u64s(B) + ") answered true although the product does not fit in size_t"; return true; } break;
      case 1: if (_cbor_safe_to_add(A, B) && sum > SZMAX) { msg = "_cbor_safe_to_add(" + u64s(A) + ", " + u64s(B) + ") answered true although the sum does not fit in size_t"; return true; } break;
      case 2: { size_t r = _cbor_safe_signaling_add(A, B); if (r != 0 && (u128)r != sum) { msg = "_cbor_safe_signaling_add(" + u64s(A) + ", " + u64s(B) + ") returned " + u64s(r) + ", neither 0 nor the exact sum"; return true; } break; }
      default: {
        rec_reset();
        void* p = what == 3 ? _cbor_alloc_multiple(A, B) : _cbor_realloc_multiple(nullptr, A, B);
        bool bad = !va::g.size_log.empty() && (u128)va::g.size_log[0] < prod;
        if (p) va::vfree(p);
        va::g.log_sizes = false;
        if (bad) { msg = std::string(what == 3 ? "_cbor_alloc_multiple(" : "_cbor_realloc_multiple(") + u64s(A) + ", " + u64s(B) + ") asked the allocator for fewer bytes than item_size*item_count"; return true; }
      }
    }
  }
  return false;
}
static Result judge_narrow(unsigned width, uint64_t a) {
  Result r; r.klass = width == 8 ? "NARROW8" : "NARROW16"; r.nontrivial = true;
  static NarrowLog log; static NarrowFns f8 = n8_fns(&log); static NarrowFns f16;
  static bool init16 = false; if (!init16) { f16 = n16_fns(&log); init16 = true; }
  const NarrowFns& f = width == 8 ? f8 : f16;
  uint64_t maxv = (1ull << width) - 1;
  if (a > maxv) { r.skipped = true; return r; }
  for (uint64_t b = 0; b <= maxv; b++) {
    uint64_t prod = a * b, sum = a + b;
    int what = -1;
    if (f.safe_mul(a, b) && prod > maxv) what = 0;
    else if (f.safe_add(a, b) && sum > maxv) what = 1;
    else { uint64_t s = f.sig_add(a, b); if (s != 0 && s != sum) what = 2; }
    if (what < 0) { log.called = false; bool got = f.alloc_mul(a, b); if ((log.called && log.size < prod) || (got && !log.called)) what = 3; }
    if (what < 0) { log.called = false; f.realloc_mul(a, b); if (log.called && log.size < prod) what = 4; }
    vh::counters["narrow_pairs"]++;
    if (what >= 0) {
      std::string msg;
      if (confirm64(what, a, b, width, msg)) { r.ok = false; r.msg = msg + " (witness scaled up from the " + std::to_string(width) + "-bit build of the same source, a=" + std::to_string(a) + " b=" + std::to_string(b) + ")"; return r; }
      vh::counters["narrow_only_discrepancies"]++;   // the source is not faithfully narrowable here; nothing is claimed
    }
  }
  return r;
}
#endif

// ---- end to end through the public API -----------------------------------------------------
static Result judge_newc(int kind, uint64_t n) {
  Result r; r.klass = "NEWC"; r.nontrivial = n >= (1ull << 56);
  rec_reset();
  size_t slot = kind == 0 ? sizeof(cbor_item_t*) : sizeof(struct cbor_pair);
  cbor_item_t* it = kind == 0 ? cbor_new_definite_array(n) : cbor_new_definite_map(n);
  u128 need = (u128)n * slot;
  std::string m;
  // an under-allocation shows as a request for the wrapped product (n*slot mod 2^64), or for fewer bytes than the
  // slots need when everything else about the request pattern says "this is the slot storage" (the largest request)
  if (need > SZMAX) {
    size_t wrapped = (size_t)need;
    for (size_t i = 1; i < va::g.size_log.size(); i++) { size_t rq = va::g.size_log[i]; if (rq == wrapped) m = "the allocator was asked for the wrapped size " + u64s(rq) + " for " + u64s(n) + " slots of " + std::to_string(slot) + " bytes"; }
  }
  if (it) {
    size_t al = kind == 0 ? cbor_array_allocated(it) : cbor_map_allocated(it);
    bool granted_enough = false; for (size_t g : va::g.granted_log) if ((u128)g >= need) granted_enough = true;
    if (!granted_enough && m.empty()) m = "container reports capacity " + u64s(al) + " but no block of at least capacity*slot bytes was obtained";
    cbor_decref(&it);
  }
  va::g.log_sizes = false; va::release_all();
  if (!m.empty()) { r.ok = false; r.msg = std::string(kind == 0 ? "cbor_new_definite_array(" : "cbor_new_definite_map(") + u64s(n) + "): " + m; }
  return r;
}
// sizes the decoder requests for a bare head whatever the declared count is (item header, stack record, ...):
// those that appear for both n = 1 and n = 2.  Computed once per kind from the implementation itself, so that no
// request pattern is hard-coded here.
static const std::vector<size_t>& structural_sizes(int kind) {
  static std::vector<size_t> cache[2]; static bool have[2] = {false, false};
  if (!have[kind]) {
    std::vector<size_t> logs[2];
    for (uint64_t n = 1; n <= 2; n++) {
      rec_reset();
      uint8_t in[9]; in[0] = kind == 0 ? 0x9b : 0xbb; for (int i = 0; i < 8; i++) in[1 + i] = (uint8_t)(n >> (8 * (7 - i)));
      struct cbor_load_result res; cbor_item_t* it = cbor_load(in, 9, &res); if (it) cbor_decref(&it);
      logs[n - 1] = va::g.size_log; va::release_all();
    }
    for (size_t a : logs[0]) for (size_t b : logs[1]) if (a == b) { cache[kind].push_back(a); break; }
    have[kind] = true;
  }
  return cache[kind];
}
static Result judge_head(int kind, uint64_t n) {
  Result r; r.klass = "HEAD"; r.nontrivial = n >= (1ull << 56);
  const std::vector<size_t>& structural = structural_sizes(kind);
  rec_reset();
  uint8_t in[9]; in[0] = kind == 0 ? 0x9b : 0xbb; for (int i = 0; i < 8; i++) in[1 + i] = (uint8_t)(n >> (8 * (7 - i)));
  size_t slot = kind == 0 ? sizeof(cbor_item_t*) : sizeof(struct cbor_pair);
  struct cbor_load_result res; cbor_item_t* it = cbor_load(in, 9, &res);
  u128 need = (u128)n * slot; std::string m;
  // a request that is not one of the count-independent ones is the slot storage: it must cover the declared count
  if (n > 2) for (size_t rq : va::g.size_log) {
    bool is_structural = false; for (size_t st : structural) if (st == rq) is_structural = true;
    if (!is_structural && (u128)rq < need) m = "the decoder asked the allocator for " + u64s(rq) + " bytes for a head declaring " + u64s(n) + " entries of " + std::to_string(slot) + " bytes";
  }
  if (it) { if (n != 0) m = "cbor_load returned an item for a bare " + std::string(kind == 0 ? "array" : "map") + " head declaring " + u64s(n) + " entries"; cbor_decref(&it); }
  else if (n > 0 && res.error.code != CBOR_ERR_MEMERROR && res.error.code != CBOR_ERR_NOTENOUGHDATA) m = std::string("unexpected error code ") + ref::code_name(res.error.code);
  if (va::g.live_blocks) { if (m.empty()) m = "blocks left allocated"; }
  va::g.log_sizes = false; va::release_all();
  if (!m.empty()) { r.ok = false; r.msg = "cbor_load(" + vh::hex(in, 9) + "): " + m; }
  return r;
}
static Result judge_growf(int kind, uint64_t cap) {
  Result r; r.klass = "GROWF"; r.nontrivial = true;
  rec_reset();
  cbor_item_t* c = kind == 0 ? cbor_new_indefinite_array() : kind == 1 ? cbor_new_indefinite_map() : kind == 2 ? cbor_new_indefinite_bytestring() : cbor_new_indefinite_string();
  cbor_item_t* x = kind == 2 ? cbor_build_bytestring((cbor_data) "z", 1) : kind == 3 ? cbor_build_string("z") : cbor_build_uint8(1);
  // forge a container that believes it is full at `cap` entries (as test/array_test.c::test_array_push_overflow does)
  struct cbor_indefinite_string_data* sd = nullptr;
  if (kind == 0) { c->metadata.array_metadata.allocated = cap; c->metadata.array_metadata.end_ptr = cap; }
  else if (kind == 1) { c->metadata.map_metadata.allocated = cap; c->metadata.map_metadata.end_ptr = cap; }
  else { sd = (struct cbor_indefinite_string_data*)c->data; sd->chunk_capacity = cap; sd->chunk_count = cap; }
  va::g.size_log.clear(); va::g.granted_log.clear();
  size_t slot = kind == 1 ? sizeof(struct cbor_pair) : sizeof(cbor_item_t*);
  va::g.fail_from = 0; va::g.requests = 0;   // nothing is really granted: writing entry `cap` of a forged container would be wild
  bool ok;
  if (kind == 0) ok = cbor_array_push(c, x);
  else if (kind == 1) { struct cbor_pair p{x, x}; ok = cbor_map_add(c, p); }
  else ok = kind == 2 ? cbor_bytestring_add_chunk(c, x) : cbor_string_add_chunk(c, x);
  va::reset_faults();
  std::string m;
  size_t newcap = kind == 0 ? c->metadata.array_metadata.allocated : kind == 1 ? c->metadata.map_metadata.allocated : sd->chunk_capacity;
  if (newcap < cap) m = "growth computed a smaller capacity (" + u64s(newcap) + ") than the container had (" + u64s(cap) + ")";
  // whatever capacity the growth step aimed for must be larger than the old one, so the request must cover more than cap slots
  for (size_t s : va::g.size_log) if ((u128)s <= (u128)cap * slot) m = "growing a container of " + u64s(cap) + " entries asked the allocator for only " + u64s(s) + " bytes";
  if (ok) m = "insertion reported success although no memory could be obtained";
  // undo the forgery before releasing
  if (kind == 0) { c->metadata.array_metadata.allocated = 0; c->metadata.array_metadata.end_ptr = 0; }
  else if (kind == 1) { c->metadata.map_metadata.allocated = 0; c->metadata.map_metadata.end_ptr = 0; }
  else { sd->chunk_capacity = 0; sd->chunk_count = 0; }
  cbor_decref(&c); cbor_decref(&x);
  va::g.log_sizes = false; va::release_all();
  if (!m.empty()) { static const char* kn[] = {"cbor_array_push", "cbor_map_add", "cbor_bytestring_add_chunk", "cbor_string_add_chunk"}; r.ok = false; r.msg = std::string(kn[kind]) + " at forged capacity " + u64s(cap) + ": " + m; }
  return r;
}
// header size of a definite string / count head
static unsigned hdr(u128 v) { return v < 24 ? 1 : v <= 0xff ? 2 : v <= 0xffff ? 3 : v <= 0xffffffffull ? 5 : 9; }
static Result judge_ssize(int shape, uint64_t L1, uint64_t L2) {
  Result r; r.klass = "SSIZE"; r.nontrivial = true;
  va::reset_counters();
  static unsigned char fake[16];
  cbor_item_t* a = (shape & 1) ? cbor_new_definite_string() : cbor_new_definite_bytestring();
  cbor_item_t* b = (shape & 1) ? cbor_new_definite_string() : cbor_new_definite_bytestring();
  if (shape & 1) { a->data = fake; a->metadata.string_metadata.length = L1; b->data = fake; b->metadata.string_metadata.length = L2; }
  else { cbor_bytestring_set_handle(a, fake, L1); cbor_bytestring_set_handle(b, fake, L2); }
  u128 sa = (u128)hdr(L1) + L1, sb = (u128)hdr(L2) + L2, total = 0;
  cbor_item_t* top = nullptr;
  switch (shape >> 1) {
    case 0: top = cbor_incref(a); total = sa; break;                                                                       // the string alone
    case 1: top = cbor_new_definite_array(2); (void)cbor_array_push(top, a); (void)cbor_array_push(top, b); total = 1 + sa + sb; break;
    case 2: top = cbor_new_indefinite_array(); (void)cbor_array_push(top, a); (void)cbor_array_push(top, b); total = 2 + sa + sb; break;
    case 3: { top = cbor_new_definite_map(1); struct cbor_pair p{a, b}; (void)cbor_map_add(top, p); total = 1 + sa + sb; break; }
    case 4: { top = cbor_new_indefinite_map(); struct cbor_pair p{b, a}; (void)cbor_map_add(top, p); total = 2 + sa + sb; break; }
    case 5: top = cbor_build_tag(7, a); total = 1 + sa; break;
    case 6: { top = (shape & 1) ? cbor_new_indefinite_string() : cbor_new_indefinite_bytestring(); if (shape & 1) { (void)cbor_string_add_chunk(top, a); (void)cbor_string_add_chunk(top, b); } else { (void)cbor_bytestring_add_chunk(top, a); (void)cbor_bytestring_add_chunk(top, b); } total = 2 + sa + sb; break; }
    default: { cbor_item_t* inner = cbor_new_definite_array(1); (void)cbor_array_push(inner, a); top = cbor_new_definite_array(2); (void)cbor_array_push(top, inner); (void)cbor_array_push(top, b); cbor_decref(&inner); total = 1 + 1 + sa + sb; break; }
  }
  size_t got = cbor_serialized_size(top);
  std::string m;
  if (total > SZMAX) { if (got != 0) m = "cbor_serialized_size returned " + u64s(got) + " although the exact total exceeds size_t"; }
  else if (got != 0 && (u128)got != total) m = "cbor_serialized_size returned " + u64s(got) + ", neither 0 nor the exact total " + u64s((uint64_t)total);
  if (m.empty()) {
    // serialize_alloc must not proceed on a truncated size: with the allocator refusing everything it reports 0 / NULL
    va::g.fail_from = 0; va::g.requests = 0;
    unsigned char* buf = (unsigned char*)1; size_t bl = 99;
    size_t w = cbor_serialize_alloc(top, &buf, &bl);
    va::reset_faults();
    if (w != 0 || buf != nullptr || bl != 0) m = "cbor_serialize_alloc did not fail cleanly";
  }
  // undo the fake handles before releasing
  if (shape & 1) { a->data = nullptr; a->metadata.string_metadata.length = 0; b->data = nullptr; b->metadata.string_metadata.length = 0; }
  else { cbor_bytestring_set_handle(a, nullptr, 0); cbor_bytestring_set_handle(b, nullptr, 0); }
  cbor_decref(&top); cbor_decref(&a); cbor_decref(&b);
  if (va::g.live_blocks && m.empty()) m = "blocks left allocated";
  va::release_all();
  if (!m.empty()) { r.ok = false; r.msg = "shape " + std::to_string(shape) + " with declared lengths " + u64s(L1) + ", " + u64s(L2) + ": " + m; }
  return r;
}

static Result run_case(const std::string& prop, const Case& c) {
#ifndef NO_INTERNALS
  if (c.campaign == "GUARD") return judge_guard(c.aux[0], c.aux[1]);
  if (c.campaign == "NARROW") return judge_narrow((unsigned)c.aux[0], c.aux[1]);
#endif
  if (c.campaign == "NEWC") return judge_newc((int)c.aux[0], c.aux[1]);
  if (c.campaign == "HEAD") return judge_head((int)c.aux[0], c.aux[1]);
  if (c.campaign == "GROWF") return judge_growf((int)c.aux[0], c.aux[1]);
  if (c.campaign == "SSIZE") return judge_ssize((int)c.aux[0], c.aux[1], c.aux[2]);
  Result r; r.skipped = true; return r;
}

static std::vector<uint64_t> grid(int lo, int hi, int d) {
  std::vector<uint64_t> v;
  for (int k = lo; k <= hi; k++) for (int e = -d; e <= d; e++) { u128 x = ((u128)1 << k) + (u128)(long long)e; if (k == 64) x = ((u128)1 << 64) + (long long)e; if (x <= SZMAX) v.push_back((uint64_t)x); }
  v.push_back(0); v.push_back(SIZE_MAX / 8); v.push_back(SIZE_MAX / 8 + 1); v.push_back(SIZE_MAX / 16); v.push_back(SIZE_MAX / 16 + 1); v.push_back(SIZE_MAX / 2); v.push_back(SIZE_MAX / 2 + 1); v.push_back(SIZE_MAX / 3);
  std::sort(v.begin(), v.end()); v.erase(std::unique(v.begin(), v.end()), v.end());
  return v;
}

static void run_campaigns(Ctx& ctx) {
  bool thorough = ctx.tier == "thorough";
  Case c; uint64_t idx = 0;
  auto run = [&](const char* camp, uint64_t a0, uint64_t a1, uint64_t a2 = 0) { if (ctx.mine(idx++) && !ctx.stop()) { c.campaign = camp; c.aux[0] = a0; c.aux[1] = a1; c.aux[2] = a2; ctx.exec(c); } };
#ifndef NO_INTERNALS
  {
    std::vector<uint64_t> g = grid(0, 64, 3);
    for (uint64_t a : g) for (uint64_t b : g) run("GUARD", a, b);
    uint64_t nrand = thorough ? 300000000ull : 12000000ull;
    for (uint64_t i = 0; i < nrand && !ctx.stop(); i++) {
      if (!ctx.mine(idx++)) continue;
      uint64_t x = vh::prand(ctx.seed, 201, i), y = vh::prand(ctx.seed, 202, i), z = vh::prand(ctx.seed, 203, i);
      int ba = 1 + (int)(z % 64), bb = 1 + (int)((z >> 8) % 64);
      if ((z >> 16) % 3 == 0) bb = 65 - ba + (int)((z >> 20) % 5) - 2;   // products straddling 2^64
      if (bb < 1) bb = 1; if (bb > 64) bb = 64;
      c.campaign = "GUARD"; c.aux[0] = x >> (64 - ba); c.aux[1] = y >> (64 - bb); c.aux[2] = 0; ctx.exec(c);
      if ((i & 0xfffff) == 0 && ctx.out_of_time()) break;
    }
    for (uint64_t a = 0; a < 256; a++) run("NARROW", 8, a);
    for (uint64_t a = 0; a < 65536; a++) run("NARROW", 16, a);
    ctx.campaign_exhaustive["NARROW"] = !ctx.inconclusive;
    ctx.notes["GUARD"] = "_cbor_safe_to_multiply / _safe_to_add / _safe_signaling_add / _alloc_multiple / _realloc_multiple on the grid {2^i+d} x {2^j+e}, i,j in 0..64, d,e in -3..3 (plus SIZE_MAX/2,/3,/8,/16), and seeded pairs with independently drawn bit lengths biased to products straddling 2^64; oracle in unsigned __int128";
    ctx.notes["NARROW"] = "the real memory_utils.c compiled with size_t = uint8_t and uint16_t, every operand pair (2^16 and 2^32 pairs): exhaustive";
  }
#else
  ctx.notes["GUARD"] = "skipped: internal guard functions not available in this tree; only the end-to-end campaigns ran";
#endif
  std::vector<uint64_t> big = grid(56, 64, 3);
  std::vector<uint64_t> small = {0, 1, 2, 23, 24, 255, 256, 1000, 4095, 4096, 65535, 65536, 1u << 20};
  for (int kind = 0; kind < 2; kind++) { for (uint64_t n : big) { run("NEWC", kind, n); run("HEAD", kind, n); } for (uint64_t n : small) { run("NEWC", kind, n); run("HEAD", kind, n); } }
  std::vector<uint64_t> caps = grid(58, 64, 3);
  for (unsigned long long x : {(1ull << 63) + 2, (1ull << 63) + 1000, (1ull << 62) + 5, ~0ull - 1, ~0ull - 2, 3ull << 61, 5ull << 60}) caps.push_back(x);
  for (uint64_t i = 0; i < (thorough ? 200000u : 20000u); i++) caps.push_back(vh::prand(ctx.seed, 210, i) | (1ull << (57 + vh::prand(ctx.seed, 211, i) % 7)));
  for (int kind = 0; kind < 4; kind++) for (uint64_t cp : caps) run("GROWF", kind, cp);
  std::vector<uint64_t> lens = grid(60, 64, 3);
  for (unsigned long long x : {0ull, 1ull, 23ull, 24ull, 255ull, 256ull, 65535ull, 65536ull, 0xffffffffull, 0x100000000ull, ~0ull - 9, ~0ull - 10, ~0ull - 11, ~0ull - 20}) lens.push_back(x);
  for (int shape = 0; shape < 16; shape++) for (uint64_t l1 : lens) for (uint64_t l2 : lens) run("SSIZE", shape, l1, l2);
  ctx.distinct_by_construction = false;
  ctx.notes["END2END"] = "NEWC: cbor_new_definite_array/map(n); HEAD: cbor_load of 9B/BB n; n on {2^k+d, k=56..64, |d|<=3} plus SIZE_MAX/8,/16 and small values, with a size-recording allocator that grants nothing large; GROWF: push / map_add / add_chunk on containers whose capacity was forged (through the public struct, as the repository's own overflow test does) to 2^58..2^64-1 incl. 2^63+2 and seeded values; SSIZE: cbor_serialized_size over byte/text strings with declared lengths near 2^60..2^64-1 alone, in definite/indefinite arrays and maps (incl. one huge and one small member), under a tag, as chunks and nested, against the exact 128-bit total";
}

int main(int argc, char** argv) {
  cbor_set_allocs(va::vmalloc, va::vrealloc, va::vfree);
  va::g.single_cap = (size_t)1 << 16;
  vh::Driver drv{"drv_arith", run_campaigns, run_case};
  return vh::driver_main(argc, argv, drv);
}
