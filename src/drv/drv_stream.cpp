// drv_stream — decides C08 (per-call contract of cbor_stream_decode), C09 (fragmented
// feeding) and C10 (encoders <-> streaming decoder are exact inverses).
//   HEAD  (C08) data = one buffer
//   FRAG  (C09) data = stream, aux[0] = mode (0 single cut at aux[1], 1 byte-at-a-time,
//               2 pseudo-random cuts with stream id aux[1], 3 explicit cut bitmap in aux[1..3])
//   ENC   (C10) aux[0] = encoder id, aux[1] = value (raw bits for floats)
#include <cstdio>
#include <cstdlib>
#include <cstring>
#include <memory>
#include <string>
#include "cbor.h"
#include "common/harness.hpp"
#include "alloc/valloc.hpp"
#include "ref/refcbor.hpp"
#include "gen/enum.hpp"

using vh::Case; using vh::Result; using vh::Ctx;

// ---- recording callback table ---------------------------------------------------------
enum Slot { S_UINT8, S_UINT16, S_UINT32, S_UINT64, S_NEGINT8, S_NEGINT16, S_NEGINT32, S_NEGINT64,
            S_BSTR, S_BSTR_START, S_TSTR, S_TSTR_START, S_ARR, S_ARR_START, S_MAP, S_MAP_START, S_TAG,
            S_FLOAT2, S_FLOAT4, S_FLOAT8, S_UNDEF, S_NULL, S_BOOL, S_BREAK, S_NONE };
static const char* slot_name(int s) {
  static const char* n[] = {"uint8", "uint16", "uint32", "uint64", "negint8", "negint16", "negint32", "negint64", "byte_string", "byte_string_start",
                            "string", "string_start", "array_start", "indef_array_start", "map_start", "indef_map_start", "tag", "float2", "float4", "float8",
                            "undefined", "null", "boolean", "indef_break", "(none)"};
  return n[s];
}
struct Event { int slot; uint64_t arg; const uint8_t* ptr; uint64_t len; };
struct Rec { std::vector<Event> ev; void* expect_ctx; bool ctx_ok = true; };
static Rec* R(void* c) { return (Rec*)c; }
static uint32_t f2u(float f) { uint32_t u; memcpy(&u, &f, 4); return u; }
static uint64_t d2u(double d) { uint64_t u; memcpy(&u, &d, 8); return u; }
#define REC(name, slot, type, expr) static void name(void* c, type v) { R(c)->ev.push_back({slot, (uint64_t)(expr), nullptr, 0}); }
REC(r_u8, S_UINT8, uint8_t, v) REC(r_u16, S_UINT16, uint16_t, v) REC(r_u32, S_UINT32, uint32_t, v) REC(r_u64, S_UINT64, uint64_t, v)
REC(r_n8, S_NEGINT8, uint8_t, v) REC(r_n16, S_NEGINT16, uint16_t, v) REC(r_n32, S_NEGINT32, uint32_t, v) REC(r_n64, S_NEGINT64, uint64_t, v)
REC(r_arr, S_ARR, uint64_t, v) REC(r_map, S_MAP, uint64_t, v) REC(r_tag, S_TAG, uint64_t, v)
REC(r_f2, S_FLOAT2, float, f2u(v)) REC(r_f4, S_FLOAT4, float, f2u(v)) REC(r_f8, S_FLOAT8, double, d2u(v)) REC(r_bool, S_BOOL, bool, v ? 1 : 0)
static void r_bstr(void* c, cbor_data d, uint64_t n) { R(c)->ev.push_back({S_BSTR, 0, d, n}); }
static void r_tstr(void* c, cbor_data d, uint64_t n) { R(c)->ev.push_back({S_TSTR, 0, d, n}); }
#define RECV(name, slot) static void name(void* c) { R(c)->ev.push_back({slot, 0, nullptr, 0}); }
RECV(r_bstart, S_BSTR_START) RECV(r_tstart, S_TSTR_START) RECV(r_astart, S_ARR_START) RECV(r_mstart, S_MAP_START)
RECV(r_undef, S_UNDEF) RECV(r_null, S_NULL) RECV(r_break, S_BREAK)
static struct cbor_callbacks make_table() {
  struct cbor_callbacks c;
  c.uint8 = r_u8; c.uint16 = r_u16; c.uint32 = r_u32; c.uint64 = r_u64;
  c.negint8 = r_n8; c.negint16 = r_n16; c.negint32 = r_n32; c.negint64 = r_n64;
  c.byte_string = r_bstr; c.byte_string_start = r_bstart; c.string = r_tstr; c.string_start = r_tstart;
  c.array_start = r_arr; c.indef_array_start = r_astart; c.map_start = r_map; c.indef_map_start = r_mstart;
  c.tag = r_tag; c.float2 = r_f2; c.float4 = r_f4; c.float8 = r_f8;
  c.undefined = r_undef; c.null = r_null; c.boolean = r_bool; c.indef_break = r_break;
  return c;
}
static const struct cbor_callbacks kTable = make_table();

// expected event for a reference head; payload given as offset relative to the head
struct Expect { int slot; uint64_t arg; bool is_float_nan; bool has_payload; uint64_t plen; };
static Expect expect_of(const ref::Head& h) {
  Expect e{S_NONE, h.arg, false, false, 0};
  int wsel = h.argw <= 1 ? 0 : h.argw == 2 ? 1 : h.argw == 4 ? 2 : 3;
  switch (h.kind) {
    case ref::K_UINT: e.slot = S_UINT8 + wsel; break;
    case ref::K_NEGINT: e.slot = S_NEGINT8 + wsel; break;
    case ref::K_BSTR: e.slot = S_BSTR; e.has_payload = true; e.plen = h.arg; e.arg = 0; break;
    case ref::K_TSTR: e.slot = S_TSTR; e.has_payload = true; e.plen = h.arg; e.arg = 0; break;
    case ref::K_ARR: e.slot = S_ARR; break;
    case ref::K_MAP: e.slot = S_MAP; break;
    case ref::K_TAG: e.slot = S_TAG; break;
    case ref::K_FALSE: e.slot = S_BOOL; e.arg = 0; break;
    case ref::K_TRUE: e.slot = S_BOOL; e.arg = 1; break;
    case ref::K_NULL: e.slot = S_NULL; e.arg = 0; break;
    case ref::K_UNDEF: e.slot = S_UNDEF; e.arg = 0; break;
    case ref::K_HALF: e.slot = S_FLOAT2; e.is_float_nan = ref::half_is_nan((uint16_t)h.arg); e.arg = ref::half_to_single_bits((uint16_t)h.arg); break;
    case ref::K_SINGLE: e.slot = S_FLOAT4; e.is_float_nan = ref::single_is_nan((uint32_t)h.arg); break;
    case ref::K_DOUBLE: e.slot = S_FLOAT8; e.is_float_nan = ref::double_is_nan(h.arg); break;
    case ref::K_BSTR_INDEF: e.slot = S_BSTR_START; e.arg = 0; break;
    case ref::K_TSTR_INDEF: e.slot = S_TSTR_START; e.arg = 0; break;
    case ref::K_ARR_INDEF: e.slot = S_ARR_START; e.arg = 0; break;
    case ref::K_MAP_INDEF: e.slot = S_MAP_START; e.arg = 0; break;
    case ref::K_BREAK: e.slot = S_BREAK; e.arg = 0; break;
  }
  return e;
}
static bool event_matches(const Event& ev, const Expect& ex, const uint8_t* buf, size_t hlen, std::string& why) {
  if (ev.slot != ex.slot) { why = std::string("callback ") + slot_name(ev.slot) + " fired, expected " + slot_name(ex.slot); return false; }
  if (ex.has_payload) {
    if (ev.len != ex.plen) { why = "payload length " + std::to_string(ev.len) + ", expected " + std::to_string(ex.plen); return false; }
    if (ev.ptr != buf + hlen) { why = "payload pointer is not buffer + head length"; return false; }
    return true;
  }
  if (ex.is_float_nan) {
    bool nan = ev.slot == S_FLOAT8 ? ref::double_is_nan(ev.arg) : ref::single_is_nan((uint32_t)ev.arg);
    if (!nan) { why = "NaN pattern decoded to a non-NaN"; return false; }
    return true;
  }
  if (ev.arg != ex.arg) { char b[96]; snprintf(b, sizeof b, "argument 0x%llx, expected 0x%llx", (unsigned long long)ev.arg, (unsigned long long)ex.arg); why = b; return false; }
  return true;
}

struct Exact {  // exactly-sized heap copy
  uint8_t* p; size_t n;
  Exact(const uint8_t* d, size_t len) : n(len) { p = (uint8_t*)malloc(len); if (len) memcpy(p, d, len); }
  ~Exact() { free(p); }
};

struct Call { struct cbor_decoder_result res; Rec rec; };
static void decode_once(const uint8_t* p, size_t n, Call& c) {
  c.rec.ev.clear();
  memset(&c.res, 0x5a, sizeof c.res);
  c.res = cbor_stream_decode(p, n, &kTable, &c.rec);
}

// A buffer that keeps its address from call to call and from case to case, the way a client's receive buffer does
// (bytes appended at the end, consumed items moved out at the front).  Answers on it must equal the answers on a
// fresh exactly-sized copy of the same bytes: anything else is state kept between calls (a cache keyed on the buffer
// address, on the initial byte, on the previous answer ...).
static const size_t kStableSize = 1 << 20;
static uint8_t* g_stable = (uint8_t*)malloc(kStableSize);
static bool same_call(const struct Call& a, const uint8_t* abase, const struct Call& b, const uint8_t* bbase) {
  if (a.res.status != b.res.status || a.res.read != b.res.read) return false;
  if (a.res.status == CBOR_DECODER_NEDATA && a.res.required != b.res.required) return false;
  if (a.rec.ev.size() != b.rec.ev.size()) return false;
  for (size_t i = 0; i < a.rec.ev.size(); i++) {
    const Event &x = a.rec.ev[i], &y = b.rec.ev[i];
    if (x.slot != y.slot || x.len != y.len || (x.ptr == nullptr) != (y.ptr == nullptr)) return false;
    if (x.ptr && (x.ptr - abase) != (y.ptr - bbase)) return false;
    bool fl = x.slot == S_FLOAT2 || x.slot == S_FLOAT4 || x.slot == S_FLOAT8;
    if (!fl && x.arg != y.arg) return false;
  }
  return true;
}

// ---------------------------------------------------------------------------- C08
static Result judge_C08(const uint8_t* d, size_t n) {
  Result r;
  va::reset_counters();
  Exact in(d, n);
  Call c1; decode_once(in.p, in.n, c1);
  uint64_t reqs = va::g.requests + va::g.frees;
  auto fail = [&](const std::string& m) { r.ok = false; r.msg = m; return r; };
  if (reqs) return fail("cbor_stream_decode made " + std::to_string(reqs) + " allocator call(s)");
  ref::Head h; ref::u128 need = 0;
  ref::HeadStatus hs = ref::read_head(d, n, 0, h, &need);
  r.nontrivial = n >= 1 && (h.argw > 0 || h.kind == ref::K_BSTR || h.kind == ref::K_TSTR);
  const struct cbor_decoder_result& R1 = c1.res;
  std::string why;
  if (hs == ref::H_RESERVED) {
    r.klass = "ERROR";
    if (R1.status != CBOR_DECODER_ERROR) return fail("reserved/unsupported initial byte: status " + std::to_string(R1.status) + ", expected ERROR");
    if (!c1.rec.ev.empty()) return fail("callback fired for a reserved initial byte");
    if (R1.read != 0) return fail("ERROR with read != 0");
  } else if (hs == ref::H_INCOMPLETE) {
    r.klass = "NEDATA";
    if (R1.status != CBOR_DECODER_NEDATA) return fail("incomplete head/payload: status " + std::to_string(R1.status) + ", expected NEDATA");
    if (!c1.rec.ev.empty()) return fail(std::string("callback ") + slot_name(c1.rec.ev[0].slot) + " fired although data is missing");
    if (R1.read != 0) return fail("NEDATA with read = " + std::to_string(R1.read));
    if (!(R1.required > n)) return fail("NEDATA with required = " + std::to_string(R1.required) + " not greater than the " + std::to_string(n) + " bytes supplied");
    if ((ref::u128)R1.required > need) return fail("NEDATA with required = " + std::to_string(R1.required) + " greater than the pending head+payload length");
  } else {
    r.klass = "FINISHED";
    if (R1.status != CBOR_DECODER_FINISHED) return fail("complete head: status " + std::to_string(R1.status) + ", expected FINISHED");
    if (c1.rec.ev.size() != 1) return fail(std::to_string(c1.rec.ev.size()) + " callbacks fired, expected exactly one");
    if (!event_matches(c1.rec.ev[0], expect_of(h), in.p, h.hlen, why)) return fail(why);
    if ((ref::u128)R1.read != h.total) return fail("read = " + std::to_string(R1.read) + ", head(+payload) length = " + std::to_string((size_t)h.total));
    if (c1.rec.ev[0].ptr && !(c1.rec.ev[0].ptr >= in.p && c1.rec.ev[0].ptr + c1.rec.ev[0].len <= in.p + in.n)) return fail("payload range not inside the buffer");
  }
  // statelessness: the same call again, and again after an unrelated call
  Call c2; decode_once(in.p, in.n, c2);
  static const uint8_t other[] = {0x5b, 0xff, 0xff, 0xff, 0xff, 0xff, 0xff, 0xff, 0xfe, 0x00};
  Call cx; decode_once(other, 3, cx); decode_once(other, sizeof other, cx);
  {  // the empty buffer, every time: nothing is pending, so the only admissible answer is "one more byte"
    Exact none(d, 0); Call c0; decode_once(none.p, 0, c0);
    if (c0.res.status != CBOR_DECODER_NEDATA || c0.res.read != 0 || c0.res.required != 1 || !c0.rec.ev.empty())
      return fail("an empty buffer between two calls: status " + std::to_string(c0.res.status) + " read " + std::to_string(c0.res.read) + " required " + std::to_string(c0.res.required) + " callbacks " + std::to_string(c0.rec.ev.size()) + ", expected NEDATA / 0 / 1 / none (state kept between calls)");
  }
  Call c3; decode_once(in.p, in.n, c3);
  auto same = [&](const Call& a, const Call& b) {
    if (a.res.status != b.res.status || a.res.read != b.res.read) return false;
    if (a.res.status == CBOR_DECODER_NEDATA && a.res.required != b.res.required) return false;
    if (a.rec.ev.size() != b.rec.ev.size()) return false;
    for (size_t i = 0; i < a.rec.ev.size(); i++) {
      const Event &x = a.rec.ev[i], &y = b.rec.ev[i];
      if (x.slot != y.slot || x.len != y.len || x.ptr != y.ptr) return false;
      bool fl = x.slot == S_FLOAT2 || x.slot == S_FLOAT4 || x.slot == S_FLOAT8;
      if (!fl && x.arg != y.arg) return false;
    }
    return true;
  };
  if (!same(c1, c2)) return fail("the same call repeated gave a different result");
  if (!same(c1, c3)) return fail("the same call gave a different result after unrelated calls (state kept between calls)");
  // the same bytes in a buffer whose address is reused, each time after a different call on that very buffer
  // with the same initial byte: a truncated head, the head with an all-ones argument, one byte fewer, the last
  // byte changed, one byte more
  if (n >= 1 && n + 1 <= kStableSize) {
    size_t hl = 1 + (size_t)(h.argw > 0 ? h.argw : 0);
    for (int v = 0; v < 6; v++) {
      size_t vn = 0;
      memcpy(g_stable, d, n);
      switch (v) {
        case 0: vn = 1; break;
        case 1: vn = hl <= n ? hl : n; for (size_t i = 1; i < vn; i++) g_stable[i] = 0xff; break;
        case 2: vn = n - 1; break;
        case 3: vn = n; g_stable[n - 1] ^= 0x01; break;
        case 4: vn = n + 1; g_stable[n] = 0x00; break;
        default: vn = n; break;   // the case itself once more (a repeated poll)
      }
      Call cv; decode_once(g_stable, vn, cv);
      memcpy(g_stable, d, n);
      Call cs; decode_once(g_stable, n, cs);
      if (!same_call(c1, in.p, cs, g_stable))
        return fail("the same bytes at a reused buffer address, after a different call (variant " + std::to_string(v) + ") on that buffer with the same initial byte, gave status " + std::to_string(cs.res.status) + " read " + std::to_string(cs.res.read) + " required " + std::to_string(cs.res.required) + " — not the answer given on a fresh buffer (state kept between calls)");
    }
  }
  // suffix independence of a FINISHED result
  if (hs == ref::H_OK) {
    size_t rd = (size_t)h.total;
    Exact pre(d, rd);
    Call c4; decode_once(pre.p, pre.n, c4);
    if (c4.res.status != CBOR_DECODER_FINISHED || c4.res.read != rd || c4.rec.ev.size() != 1 || !event_matches(c4.rec.ev[0], expect_of(h), pre.p, h.hlen, why))
      return fail("decoding exactly the bytes reported as read gives a different result: " + why);
    if (n > rd) {
      Exact alt(d, n);
      for (size_t i = rd; i < n; i++) alt.p[i] ^= 0xff;
      Call c5; decode_once(alt.p, alt.n, c5);
      if (c5.res.status != CBOR_DECODER_FINISHED || c5.res.read != rd || c5.rec.ev.size() != 1 || !event_matches(c5.rec.ev[0], expect_of(h), alt.p, h.hlen, why))
        return fail("FINISHED result depends on bytes beyond those reported as read: " + why);
    }
  }
  if (va::g.requests + va::g.frees) return fail("cbor_stream_decode used the allocator");
  return r;
}

// ---------------------------------------------------------------------------- C09
static std::vector<size_t> cuts_of(const Case& c) {
  size_t n = c.data.size();
  std::vector<size_t> cuts;
  switch (c.aux[0]) {
    case 0: if (c.aux[1] > 0 && c.aux[1] < n) cuts.push_back((size_t)c.aux[1]); break;
    case 1: for (size_t i = 1; i < n; i++) cuts.push_back(i); break;
    case 2: {
      uint64_t k = 1 + vh::prand(c.aux[1], 91, 0) % 6;
      for (uint64_t i = 0; i < k && n > 1; i++) cuts.push_back(1 + (size_t)(vh::prand(c.aux[1], 92, i) % (n - 1)));
      std::sort(cuts.begin(), cuts.end()); cuts.erase(std::unique(cuts.begin(), cuts.end()), cuts.end());
      break;
    }
    default:  // explicit bitmap: bit i set = cut before byte i+1
      for (size_t i = 0; i + 1 < n && i < 192; i++) if ((c.aux[1 + i / 64] >> (i % 64)) & 1) cuts.push_back(i + 1);
  }
  return cuts;
}
static Result judge_C09(const Case& c) {
  Result r; r.klass = c.aux[0] == 0 ? "single-cut" : c.aux[0] == 1 ? "byte-at-a-time" : "multi-cut";
  const uint8_t* d = c.data.data(); size_t n = c.data.size();
  va::reset_counters();
  ref::TokStream tok = ref::tokenise(d, n);
  std::vector<size_t> cuts = cuts_of(c);
  cuts.push_back(n);
  // non-trivial: some cut falls strictly inside a head or payload
  {
    size_t hi = 0;
    for (size_t cut : cuts) {
      if (cut >= n) break;
      while (hi < tok.heads.size() && tok.heads[hi].off + (size_t)tok.heads[hi].total <= cut) hi++;
      if (hi < tok.heads.size() ? cut > tok.heads[hi].off : (tok.end == ref::H_INCOMPLETE && cut > tok.end_off)) r.nontrivial = true;
    }
  }
  // One client run.  stable = false: every call gets a fresh exactly-sized copy of the buffered bytes (over-reads
  // trap).  stable = true: the client keeps one receive buffer at a fixed address and moves the unconsumed bytes to
  // its front, as real clients do.
  auto client = [&](bool stable, std::string& msg) -> bool {
  auto fail = [&](const std::string& m) { msg = (stable ? "[client with one receive buffer at a fixed address] " : "") + m; return false; };
  size_t pos = 0, arrived = 0, wait_for = 0, ei = 0;
  bool errored = false, waiting = false; size_t last_required = 0;
  std::string why;
  for (size_t cut : cuts) {
    arrived = cut;
    for (;;) {
      size_t buffered = arrived - pos;
      if (buffered == 0) {   // a client may poll with nothing buffered: the answer is always "one more byte"
        Exact none(d, 0); Call c0; decode_once(none.p, 0, c0);
        if (c0.res.status != CBOR_DECODER_NEDATA || c0.res.read != 0 || c0.res.required != 1 || !c0.rec.ev.empty())
          return fail("polling with an empty buffer at offset " + std::to_string(pos) + ": status " + std::to_string(c0.res.status) + " read " + std::to_string(c0.res.read) + " required " + std::to_string(c0.res.required) + ", expected NEDATA / 0 / 1");
        break;
      }
      if (buffered < wait_for) break;
      std::unique_ptr<Exact> fresh;
      struct { const uint8_t* p; size_t n; } buf;
      if (stable) { memcpy(g_stable, d + pos, buffered); buf.p = g_stable; buf.n = buffered; }
      else { fresh.reset(new Exact(d + pos, buffered)); buf.p = fresh->p; buf.n = buffered; }
      Call call; decode_once(buf.p, buf.n, call);
      if (call.res.status == CBOR_DECODER_FINISHED) {
        waiting = false; wait_for = 0;
        if (call.res.read == 0 || call.res.read > buffered) return fail("FINISHED with read = " + std::to_string(call.res.read) + " of " + std::to_string(buffered) + " buffered bytes (no progress / over-read) at offset " + std::to_string(pos));
        if (ei >= tok.heads.size()) return fail("an event was delivered at offset " + std::to_string(pos) + " where the stream has no complete item");
        const ref::Head& h = tok.heads[ei];
        if (h.off != pos) return fail("client offset " + std::to_string(pos) + " is not the offset " + std::to_string(h.off) + " of the next item head");
        if (call.rec.ev.size() != 1) return fail(std::to_string(call.rec.ev.size()) + " callbacks in one FINISHED call");
        if (!event_matches(call.rec.ev[0], expect_of(h), buf.p, h.hlen, why)) return fail("event " + std::to_string(ei) + " at offset " + std::to_string(pos) + ": " + why);
        if (call.rec.ev[0].ptr && memcmp(call.rec.ev[0].ptr, d + pos + h.hlen, (size_t)call.rec.ev[0].len) != 0) return fail("payload bytes differ");
        if ((ref::u128)call.res.read != h.total) return fail("read = " + std::to_string(call.res.read) + " for an item of length " + std::to_string((size_t)h.total));
        pos += call.res.read; ei++;
      } else if (call.res.status == CBOR_DECODER_NEDATA) {
        if (!call.rec.ev.empty()) return fail("callback fired on NEDATA");
        if (!(call.res.required > buffered)) return fail("wait for " + std::to_string(call.res.required) + " bytes with " + std::to_string(buffered) + " already buffered (client can never make progress) at offset " + std::to_string(pos));
        // upper bound: what the pending item really occupies, as far as the whole stream tells
        ref::Head h; ref::u128 need = 0;
        ref::HeadStatus hs = ref::read_head(d, n, pos, h, &need);
        ref::u128 occupies = hs == ref::H_OK ? h.total : need;
        if (hs == ref::H_RESERVED) return fail("NEDATA for a reserved initial byte");
        if ((ref::u128)call.res.required > occupies) return fail("wait for " + std::to_string(call.res.required) + " bytes but the pending item occupies only " + std::to_string((size_t)occupies) + " at offset " + std::to_string(pos));
        waiting = true; wait_for = call.res.required; last_required = call.res.required;
        break;
      } else {
        if (!call.rec.ev.empty()) return fail("callback fired on ERROR");
        errored = true; break;
      }
    }
    if (errored) break;
  }
  (void)last_required;
  // final state against the tokenisation
  if (errored) {
    if (!(tok.end == ref::H_RESERVED && pos == tok.end_off && ei == tok.heads.size())) return fail("ERROR reported at offset " + std::to_string(pos) + " where the tokenisation has no reserved byte");
  } else if (tok.end == ref::H_RESERVED) {
    return fail("stream contains a reserved initial byte at " + std::to_string(tok.end_off) + " but the client never received ERROR (stopped at " + std::to_string(pos) + ")");
  } else {
    if (ei != tok.heads.size()) return fail("only " + std::to_string(ei) + " of " + std::to_string(tok.heads.size()) + " events delivered");
    if (tok.end == ref::H_OK && (pos != n || waiting)) return fail("stream ends on an item boundary but the client is left waiting");
    if (tok.end == ref::H_INCOMPLETE && n > pos && !waiting) return fail("trailing incomplete item but the client is not waiting");
  }
  if (va::g.requests + va::g.frees) return fail("the streaming decoder used the allocator");
  return true;
  };
  std::string msg;
  if (!client(false, msg)) { r.ok = false; r.msg = msg; return r; }
  if (n >= 1 && n <= kStableSize) {
    // the receive buffer has a past: an abandoned, different item with the same initial byte (head cut short, and
    // head complete with an all-ones argument), then this stream, then - the stream having ended where it ended -
    // the same stream again through the same buffer
    ref::Head h0; ref::read_head(d, n, 0, h0);
    size_t hl = 1 + (size_t)(h0.argw > 0 ? h0.argw : 0);
    g_stable[0] = d[0]; for (size_t i = 1; i < hl; i++) g_stable[i] = 0xff;
    for (size_t k = 1; k <= hl; k++) { Call pre; decode_once(g_stable, k, pre); }
    if (!client(true, msg)) { r.ok = false; r.msg = msg; return r; }
    if (!client(true, msg)) { r.ok = false; r.msg = "[second stream through the same buffer] " + msg; return r; }
  }
  return r;
}

// ---------------------------------------------------------------------------- C10
#include "drv/encoders.hpp"
static Result judge_C10(int e, uint64_t v) {
  Result r; r.klass = enc_name(e);
  ref::Bytes want;
  if (e < 0 || e >= EN_COUNT || !ref_head(e, v, want)) { r.skipped = true; return r; }
  va::reset_counters();
  r.nontrivial = want.size() > 1;
  auto fail = [&](const std::string& m) { r.ok = false; r.msg = std::string("cbor_encode_") + enc_name(e) + "(0x" + vh::hex((const uint8_t*)&v, 8) + " LE): " + m; return r; };
  const size_t N = 16;
  uint8_t* buf = (uint8_t*)malloc(N); memset(buf, 0xC5, N);
  size_t w = call_encoder(e, v, buf, N);
  std::string got = vh::hex(buf, w <= N ? w : N);
  bool tail_ok = true; for (size_t i = (w <= N ? w : N); i < N; i++) if (buf[i] != 0xC5) tail_ok = false;
  ref::Bytes out(buf, buf + (w <= N ? w : 0));
  free(buf);
  if (uint8_t* hb = vh::huge_buffer()) {   // the same call with a buffer size that does not fit an int / a uint32_t
    size_t claim = vh::kHugeClaims[(v ^ (uint64_t)e) % 7];
    memset(hb, 0xC5, N); size_t wh = call_encoder(e, v, hb, claim);
    vh::counters["huge_buffer_calls"]++;
    if (wh != w || (out.size() && memcmp(hb, out.data(), out.size()) != 0) || hb[out.size()] != 0xC5) return fail("with a buffer of " + std::to_string(claim) + " bytes it returned " + std::to_string(wh) + " / wrote " + vh::hex(hb, 10) + "; with 16 bytes " + std::to_string(w) + " / " + got);
  }
  if (w != want.size()) return fail("returned " + std::to_string(w) + ", RFC head is " + vh::hex(want) + " (" + std::to_string(want.size()) + " bytes); wrote " + got);
  if (out != want) return fail("wrote " + got + ", RFC 8949 head is " + vh::hex(want));
  if (!tail_ok) return fail("bytes beyond the returned length were modified");
  // decode what was written
  Exact in(out.data(), out.size());
  Call c; decode_once(in.p, in.n, c);
  ref::Head h; ref::HeadStatus hs = ref::read_head(want.data(), want.size(), 0, h);
  bool decodable = hs == ref::H_OK && !(h.kind == ref::K_BSTR || h.kind == ref::K_TSTR) ? true : (hs == ref::H_OK && h.arg == 0);
  if (hs == ref::H_RESERVED) {  // unassigned simple values: encoded per RFC, not decodable in this profile
    if (c.res.status != CBOR_DECODER_ERROR) return fail("decoder did not report ERROR for an unsupported simple value");
  } else if ((h.kind == ref::K_BSTR || h.kind == ref::K_TSTR) && h.arg > 0) {
    // a string head without its payload: NEDATA asking for head + payload
    ref::Head h2; ref::u128 need = 0; ref::read_head(out.data(), out.size(), 0, h2, &need);
    if (c.res.status != CBOR_DECODER_NEDATA || !((ref::u128)c.res.required > out.size() && (ref::u128)c.res.required <= need)) return fail("string head without payload: expected NEDATA with required in (head, head+length]");
    // with the payload present (small lengths only) the callback must report the identical length
    if (v <= 4096) {
      ref::Bytes full(out); full.resize(out.size() + (size_t)v, 0x61);
      Exact in2(full.data(), full.size()); Call c2; decode_once(in2.p, in2.n, c2);
      std::string why;
      if (c2.res.status != CBOR_DECODER_FINISHED || c2.rec.ev.size() != 1 || !event_matches(c2.rec.ev[0], expect_of(h), in2.p, h.hlen, why) || c2.res.read != full.size())
        return fail("decoding head+payload: " + why);
    }
  } else {
    (void)decodable;
    std::string why;
    if (c.res.status != CBOR_DECODER_FINISHED) return fail("decoder status " + std::to_string(c.res.status) + " on the bytes just written");
    if (c.rec.ev.size() != 1 || !event_matches(c.rec.ev[0], expect_of(h), in.p, h.hlen, why)) return fail("decoding the written bytes: " + why);
    if (c.res.read != out.size()) return fail("decoder consumed " + std::to_string(c.res.read) + " of the " + std::to_string(out.size()) + " bytes written");
  }
  if (va::g.requests + va::g.frees) return fail("encoder/decoder used the allocator");
  return r;
}

static Result run_case(const std::string& prop, const Case& c0) {
  Case mapped;
  if (c0.campaign == "FUZZ" && prop == "C09") {   // fuzz input: up to 24 leading bytes are the cut bitmap, the rest is the stream
    size_t nb = c0.data.size() < 48 ? c0.data.size() / 2 : 24; if (nb > 24) nb = 24;
    mapped.campaign = "FRAG"; mapped.aux[0] = 3;
    for (size_t i = 0; i < nb; i++) mapped.aux[1 + i / 8] |= (uint64_t)c0.data[i] << (8 * (i % 8));
    mapped.data.assign(c0.data.begin() + (long)nb, c0.data.end()); if (mapped.data.size() > 190) mapped.data.resize(190);
  }
  const Case& c = mapped.campaign.empty() ? c0 : mapped;
  if (prop == "C08") return judge_C08(c.data.data(), c.data.size());
  if (prop == "C09") return judge_C09(c);
  if (prop == "C10") return judge_C10((int)c.aux[0], c.aux[1]);
  Result r; r.ok = false; r.msg = "unknown property for drv_stream"; return r;
}

// ------------------------------------------------------------------------------ campaigns
static std::vector<uint64_t> boundary64() {
  std::vector<uint64_t> v = {0, 1, 22, 23, 24, 25, 254, 255, 256, 257, 65534, 65535, 65536, 65537};
  for (int k = 1; k < 64; k++) { uint64_t p = 1ull << k; v.push_back(p - 1); v.push_back(p); v.push_back(p + 1); }
  for (uint64_t d = 0; d <= 12; d++) v.push_back(~0ull - d);
  std::sort(v.begin(), v.end()); v.erase(std::unique(v.begin(), v.end()), v.end());
  return v;
}

static void camp_HEAD(Ctx& ctx) {
  bool thorough = ctx.tier == "thorough";
  Case c; c.campaign = "HEAD";
  std::vector<uint64_t> b64 = boundary64();
  if (ctx.shard == 0) { c.data.clear(); ctx.exec(c); }
  for (int ib = 0; ib < 256 && !ctx.stop(); ib++) {
    if (!ctx.mine((uint64_t)ib)) continue;
    unsigned mt = (unsigned)ib >> 5, ai = (unsigned)ib & 31;
    int argw = ai < 24 ? 0 : ai == 24 ? 1 : ai == 25 ? 2 : ai == 26 ? 4 : ai == 27 ? 8 : 0;
    bool isstr = (mt == 2 || mt == 3) && ai <= 27;
    std::vector<uint64_t> vals;
    if (argw == 0) vals.push_back(ai);
    else if (argw == 1) for (uint64_t v = 0; v < 256; v++) vals.push_back(v);
    else if (argw == 2) for (uint64_t v = 0; v < 65536; v++) vals.push_back(v);
    else {
      uint64_t mask = argw == 4 ? 0xffffffffull : ~0ull;
      for (uint64_t v : b64) if (v <= mask) vals.push_back(v);
      uint64_t nrand = thorough ? 1500000 : 60000;
      for (uint64_t i = 0; i < nrand; i++) { uint64_t x = vh::prand(ctx.seed, 800 + (uint64_t)ib, i); int bits = 1 + (int)(vh::prand(ctx.seed, 900 + (uint64_t)ib, i) % (uint64_t)(8 * argw)); vals.push_back((x >> (64 - bits)) & mask); }
    }
    for (uint64_t v : vals) {
      gen::Bytes head; head.push_back((uint8_t)ib);
      for (int i = argw - 1; i >= 0; i--) head.push_back((uint8_t)(v >> (8 * i)));
      // every buffer length from 0 to full head length + 1 (with two trailing filler bytes available)
      gen::Bytes full = head; full.push_back(0xa5); full.push_back(0x3c);
      for (size_t len = 1; len <= head.size() + 1; len++) { c.data.assign(full.begin(), full.begin() + (long)len); ctx.exec(c); }
      // definite strings: payload one short / exact / one extra (payload materialised for moderate lengths)
      if (isstr && v >= 1 && (v <= 300 || v == 65535 || v == 65536 || v == 70000)) {
        gen::Bytes withp = head; for (uint64_t i = 0; i < v + 1; i++) withp.push_back((uint8_t)(0x41 + i % 26));
        for (size_t len : {head.size() + (size_t)v - 1, head.size() + (size_t)v, head.size() + (size_t)v + 1}) { c.data.assign(withp.begin(), withp.begin() + (long)len); ctx.exec(c); }
      }
      if (ctx.stop()) break;
    }
    if (ctx.out_of_time()) break;
  }
  ctx.distinct_by_construction = false;  // seeded values may repeat boundary values
  ctx.campaign_exhaustive["HEAD"] = false;
  ctx.notes["HEAD"] = "every initial byte x every buffer length 0..head+1 x argument values: all 256 one-byte and all 65536 two-byte arguments (exhaustive), boundary set {0,1,23..25,255..257,65535..65537, 2^k-1,2^k,2^k+1 for all k, 2^64-13..2^64-1} plus seeded values of random bit length for four- and eight-byte arguments; definite strings additionally with payload one short / exact / one extra";
}

static void build_streams(Ctx& ctx, std::vector<gen::Bytes>& out, uint64_t nrand) {
  // (a) concatenations of enumerated well-formed items
  std::vector<gen::Bytes> pool;
  { gen::E2 e(gen::leaves_full(), [&](const gen::Bytes& b, int) { pool.push_back(b); }); e.run(2); }
  for (uint64_t i = 0; i < nrand; i++) {
    gen::Bytes s; int k = 1 + (int)(vh::prand(ctx.seed, 21, i) % 4);
    for (int j = 0; j < k; j++) { const gen::Bytes& x = pool[vh::prand(ctx.seed, 22, i * 4 + (uint64_t)j) % pool.size()]; s.insert(s.end(), x.begin(), x.end()); }
    out.push_back(s);
  }
  // (b) raw head sequences (nesting need not be well-formed: the streaming decoder does not care)
  for (uint64_t i = 0; i < nrand; i++) {
    gen::Bytes s; int k = 1 + (int)(vh::prand(ctx.seed, 23, i) % 6);
    for (int j = 0; j < k; j++) {
      uint64_t r = vh::prand(ctx.seed, 24, i * 8 + (uint64_t)j);
      unsigned mt = (unsigned)(r % 8); r /= 8;
      int wsel = (int)(r % 5); r /= 5; int w = wsel == 0 ? 0 : 1 << (wsel - 1);
      uint64_t v = vh::prand(ctx.seed, 25, i * 8 + (uint64_t)j);
      if (w == 0) v %= 24; else if (w < 8) v &= (1ull << (8 * w)) - 1;
      if (mt == 2 || mt == 3) { v %= 40; }                       // keep payloads short
      if (mt == 7) { if (w == 0) v = 20 + v % 4; else if (w == 1) { mt = 0; } }  // only supported simple values
      if ((r & 7) == 0 && mt >= 2 && mt <= 5) { s.push_back((uint8_t)((mt << 5) | 31)); continue; }
      if ((r & 15) == 1) { s.push_back(0xff); continue; }
      ref::put_head(s, mt, v, w);
      if (mt == 2 || mt == 3) for (uint64_t q = 0; q < v; q++) s.push_back((uint8_t)(0x30 + q % 10));
    }
    out.push_back(s);
  }
  // (c) specials: huge declared lengths, reserved byte at the end / in the middle, truncated tails
  for (uint64_t len : {(uint64_t)1 << 32, (uint64_t)1 << 63, (uint64_t)(~0ull - 9), (uint64_t)(~0ull - 8), (uint64_t)~0ull})
    for (unsigned mt : {2u, 3u}) { gen::Bytes s = gen::B({0x01}); ref::put_head(s, mt, len, 8); s.push_back(0x41); s.push_back(0x42); out.push_back(s); }
  out.push_back(gen::B({0x01, 0x19, 0x01, 0x02, 0x1c}));
  out.push_back(gen::B({0x62, 'h', 'i', 0xf8, 0x20, 0x00}));
  out.push_back(gen::B({0x9f, 0x1b, 0, 0, 0, 0, 0, 0, 0, 1, 0xff, 0x5a, 0, 0, 0, 2, 1}));
  out.push_back(gen::B({0xfb, 0x7f, 0xf8, 0, 0, 0, 0, 0, 1, 0xfa, 0x7f, 0x80, 0, 1, 0xf9, 0x7c, 0x01, 0xf9}));
}
static void camp_FRAG(Ctx& ctx) {
  bool thorough = ctx.tier == "thorough";
  std::vector<gen::Bytes> streams;
  build_streams(ctx, streams, thorough ? 2000000 : 150000);
  Case c; c.campaign = "FRAG";
  for (size_t si = 0; si < streams.size() && !ctx.stop(); si++) {
    if (!ctx.mine(si)) continue;
    c.data = streams[si]; size_t n = c.data.size();
    memset(c.aux, 0, sizeof c.aux);
    c.aux[0] = 0; c.aux[1] = 0; ctx.exec(c);                       // one shot
    for (size_t cut = 1; cut < n; cut++) { c.aux[0] = 0; c.aux[1] = cut; ctx.exec(c); }
    c.aux[0] = 1; c.aux[1] = 0; ctx.exec(c);                       // byte at a time
    for (uint64_t k = 0; k < 8; k++) { c.aux[0] = 2; c.aux[1] = vh::prand(ctx.seed, 31, si * 8 + k); ctx.exec(c); }
    if ((si & 0xff) == 0 && ctx.out_of_time()) break;
  }
  ctx.distinct_by_construction = false;
  ctx.notes["FRAG"] = "streams: concatenations of 1..4 enumerated items (<=2 nodes), raw sequences of 1..6 random heads (any nesting), and specials (2^32..2^64-1 declared lengths, reserved bytes, truncated tails); each stream delivered one-shot, with every single cut, byte-at-a-time, and with 8 seeded multi-cut lists";
}

static void camp_ENC(Ctx& ctx) {
  bool thorough = ctx.tier == "thorough";
  Case c; c.campaign = "ENC"; uint64_t idx = 0;
  std::vector<uint64_t> b64 = boundary64();
  auto run = [&](int e, uint64_t v) { if (ctx.mine(idx++) && !ctx.stop()) { c.aux[0] = (uint64_t)e; c.aux[1] = v; ctx.exec(c); } };
  for (int e : {EN_UINT8, EN_NEGINT8, EN_CTRL}) for (uint64_t v = 0; v < 256; v++) run(e, v);
  for (int e : {EN_UINT16, EN_NEGINT16}) for (uint64_t v = 0; v < 65536; v++) run(e, v);
  for (int e : {EN_IBSTR, EN_ITSTR, EN_IARR, EN_IMAP, EN_NULL, EN_UNDEF, EN_BREAK}) run(e, 0);
  run(EN_BOOL, 0); run(EN_BOOL, 1);
  uint64_t nrand = thorough ? 30000000 : 2500000;
  for (int e : {EN_UINT32, EN_NEGINT32}) { for (uint64_t v : b64) if (v <= 0xffffffffull) run(e, v); for (uint64_t i = 0; i < nrand; i++) run(e, vh::prand(ctx.seed, 40 + (uint64_t)e, i) >> (32 + vh::prand(ctx.seed, 70, i) % 32)); }
  for (int e : {EN_UINT64, EN_NEGINT64, EN_UINT, EN_NEGINT, EN_BSTR_START, EN_TSTR_START, EN_ARR_START, EN_MAP_START, EN_TAG}) {
    for (uint64_t v : b64) run(e, v);
    for (uint64_t i = 0; i < nrand; i++) run(e, vh::prand(ctx.seed, 40 + (uint64_t)e, i) >> (vh::prand(ctx.seed, 71, i) % 64));
    if (e == EN_UINT || e == EN_NEGINT || e == EN_TAG) for (uint64_t v = 0; v < 70000; v++) run(e, v);   // every width boundary region densely
  }
  // floats: every half pattern (as the float it denotes), single / double boundary patterns and seeded ones
  for (uint64_t h = 0; h < 65536; h++) run(EN_HALF, ref::half_to_single_bits((uint16_t)h));
  for (uint64_t ex = 0; ex < 256; ex++) for (uint64_t m : {0ull, 1ull, 0x400000ull, 0x7fffffull}) for (uint64_t s : {0ull, 1ull}) run(EN_SINGLE, (s << 31) | (ex << 23) | m);
  for (uint64_t ex = 0; ex < 2048; ex++) for (uint64_t m : {0ull, 1ull, 0x8000000000000ull, 0xfffffffffffffull}) for (uint64_t s : {0ull, 1ull}) run(EN_DOUBLE, (s << 63) | (ex << 52) | m);
  for (uint64_t i = 0; i < nrand; i++) { run(EN_SINGLE, vh::prand(ctx.seed, 60, i) & 0xffffffffull); run(EN_DOUBLE, vh::prand(ctx.seed, 61, i)); }
  ctx.distinct_by_construction = false;
  ctx.notes["ENC"] = "exhaustive: all 8- and 16-bit values for the fixed-width integer encoders, all 256 ctrl values (24..31 have no RFC encoding and are skipped), bool/null/undef/break/indefinite starts, every half pattern; 32/64-bit and width-agnostic encoders: 0..70000 densely (uint/negint/tag), every 2^k-1/2^k/2^k+1 and width boundary, plus seeded values of random bit length";
}

static void run_campaigns(Ctx& ctx) {
  if (ctx.prop == "C08") camp_HEAD(ctx);
  else if (ctx.prop == "C09") camp_FRAG(ctx);
  else if (ctx.prop == "C10") camp_ENC(ctx);
}

static void driver_init() { cbor_set_allocs(va::vmalloc, va::vrealloc, va::vfree); }
static const char* kDriverName = "drv_stream";
#ifndef VH_FUZZ_TARGET
int main(int argc, char** argv) {
  driver_init();
  vh::Driver drv{kDriverName, run_campaigns, run_case};
  drv.replay_repeat = 8192;   // C08/C09/C10: "keeps no state between calls" — a history-dependent failure reproduces by repetition
  return vh::driver_main(argc, argv, drv);
}
#endif
