#pragma once
#include <cstdint>
struct NarrowLog { bool called; uint64_t size; };
struct NarrowFns {
  unsigned bits;
  bool (*safe_mul)(uint64_t, uint64_t);
  bool (*safe_add)(uint64_t, uint64_t);
  uint64_t (*sig_add)(uint64_t, uint64_t);
  bool (*alloc_mul)(uint64_t, uint64_t);
  bool (*realloc_mul)(uint64_t, uint64_t);
};
NarrowFns n8_fns(NarrowLog*);
NarrowFns n16_fns(NarrowLog*);
