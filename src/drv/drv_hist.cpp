// drv_hist — decides C04 (reference counting), C12 (containers as sequences) and C13 (all heap
// traffic through the configured allocator) on generated call histories.
// Campaigns:
//   HISTX  exhaustive short histories over a fixed alphabet of concrete ops (data = op records)
//   HISTR  seeded random histories of up to 200 ops                       (data = op records)
//   SEQ    (C12) exhaustive op sequences on one container: aux[0] kind, aux[1] capacity, data = op bytes
//   GROW   (C12) n insertions into an indefinite container: aux[0] kind, aux[1] n
//   ALOAD  (C13) decode pipeline on data under the arena allocator with the libc hooks armed
//   STATELESS (C13) stream decoder / encoders / serialize / size on data: zero allocator requests
// aux[3] (HISTX/HISTR, C13 only): 0 = tagging allocator, 1 = arena allocator + libc hooks.
#include <cstdio>
#include <cstdlib>
#include <cstring>
#include <cmath>
#include <string>
#include <array>
#include "cbor.h"
#include "common/harness.hpp"
#include "alloc/valloc.hpp"
#include "alloc/arena.hpp"
#include "ref/refcbor.hpp"
#include "obs/observe.hpp"
#include "gen/enum.hpp"
#include "drv/hist.hpp"
#include "drv/encoders.hpp"

using vh::Case; using vh::Result; using vh::Ctx;
static FILE* g_devnull;
static bool g_hooks = false;

static void use_va() { cbor_set_allocs(va::vmalloc, va::vrealloc, va::vfree); }
static void use_arena() { cbor_set_allocs(ar::amalloc, ar::arealloc, ar::afree); }

// ---------------------------------------------------------------------------- histories
static Result judge_history(const std::string& prop, const Case& c) {
  Result r; r.klass = c.campaign.c_str();
  bool arena = prop == "C13" && c.aux[3] == 1;
  if (arena && !g_hooks) { r.skipped = true; return r; }
  hist::Interp in;
  in.devnull = g_devnull; in.use_va = !arena; in.stop_prop = prop;
  if (arena) { ar::reset_all(); use_arena(); } else { va::reset_counters(); use_va(); }
  in.run(c.data.data(), c.data.size());
  // final state
  if (!arena) {
    if (!in.failed_for(prop) && va::g.live_blocks) { in.flag("C04", std::to_string(va::g.live_blocks) + " block(s) still allocated after the client dropped every reference"); }
    if (va::g.foreign_free) in.flag("C13", "a block that was not obtained from the installed allocator was handed to its free/realloc");
    if (va::g.double_free) { in.flag("C13", "a block was handed to the installed free twice"); in.flag("C04", "a block was released twice"); }
    va::release_all();
  } else {
    if (ar::g.libc_mallocs_in_lib || ar::g.libc_frees_in_lib) in.flag("C13", "C library heap used during a libcbor call while a custom allocator is installed (" + std::to_string(ar::g.libc_mallocs_in_lib) + " malloc, " + std::to_string(ar::g.libc_frees_in_lib) + " free)");
    if (ar::g.foreign) in.flag("C13", "a pointer that did not come from the installed allocator was handed to its free/realloc");
    if (ar::g.double_free) in.flag("C13", "a block was handed to the installed free/realloc after it had been released");
    if (!in.failed_for(prop) && ar::g.live_blocks) in.flag("C13", std::to_string(ar::g.live_blocks) + " block(s) of the installed allocator never released");
    use_va();
  }
  for (auto& f : in.findings) if (f.prop == prop) { r.ok = false; r.msg = f.msg; break; }
  if (prop == "C04") r.nontrivial = in.max_owners >= 2 && (in.container_died_child_survived || in.child_died_container_survived);
  else if (prop == "C12") r.nontrivial = in.boundary_hits > 0 || in.reallocs_seen >= 2;
  else r.nontrivial = in.reallocs_seen >= 1 && in.multi_block_release;
  return r;
}

// ---------------------------------------------------------------------------- C12 SEQ / GROW
enum { K_DEFARR, K_INDEFARR, K_DEFMAP, K_INDEFMAP, K_BSTR, K_TSTR, K_KINDS };
static const char* kname(int k) { static const char* n[] = {"definite array", "indefinite array", "definite map", "indefinite map", "chunked bytestring", "chunked string"}; return n[k]; }
static cbor_item_t* fresh_elem(int kind, size_t i) {
  if (kind == K_BSTR) { uint8_t d[2] = {(uint8_t)i, (uint8_t)(i >> 8)}; return cbor_build_bytestring(d, 2); }
  if (kind == K_TSTR) { char d[2] = {(char)('a' + i % 26), (char)('A' + i % 26)}; return cbor_build_stringn(d, 2); }
  return cbor_build_uint16((uint16_t)i);
}
static Result judge_seq(const Case& c) {
  Result r; r.klass = "SEQ";
  int kind = (int)c.aux[0]; size_t cap = (size_t)c.aux[1];
  if (kind < 0 || kind >= K_KINDS) { r.skipped = true; return r; }
  va::reset_counters(); use_va();
  cbor_item_t* cont = kind == K_DEFARR ? cbor_new_definite_array(cap) : kind == K_INDEFARR ? cbor_new_indefinite_array() : kind == K_DEFMAP ? cbor_new_definite_map(cap)
                    : kind == K_INDEFMAP ? cbor_new_indefinite_map() : kind == K_BSTR ? cbor_new_indefinite_bytestring() : cbor_new_indefinite_string();
  std::vector<cbor_item_t*> model;        // abstract list (maps: key, value, ...)
  std::vector<cbor_item_t*> mine;         // every reference the client holds
  bool definite = kind == K_DEFARR || kind == K_DEFMAP;
  auto fail = [&](const std::string& m) { r.ok = false; if (r.msg.empty()) r.msg = std::string(kname(kind)) + (definite ? " of capacity " + std::to_string(cap) : "") + ": " + m; };
  size_t step = 0;
  for (uint8_t ob : c.data) {
    if (!r.ok) break;
    step++;
    int op = ob >> 3, ic = ob & 7;
    size_t size = (kind == K_DEFMAP || kind == K_INDEFMAP) ? model.size() / 2 : model.size();
    // index classes: 0 -> 0, 1 -> size-1, 2 -> size, 3 -> size+1, 4 -> size+2
    size_t idx = ic == 0 ? 0 : ic == 1 ? (size ? size - 1 : 0) : ic == 2 ? size : ic == 3 ? size + 1 : size + 2;
    bool full = definite && size >= cap;
    cbor_item_t* x = fresh_elem(kind, step); mine.push_back(x);
    std::string what;
    if (kind == K_DEFARR || kind == K_INDEFARR) {
      switch (op % 4) {
        case 0: { bool ok = cbor_array_push(cont, x); what = "push"; if (ok == full) fail("step " + std::to_string(step) + " push with size " + std::to_string(size) + " returned " + (ok ? "true" : "false")); if (ok) model.push_back(x); if (full) r.nontrivial = true; break; }
        case 1: { bool ok = cbor_array_set(cont, idx, x); bool want = idx < size || (idx == size && !full); if (ok != want) fail("step " + std::to_string(step) + " set(" + std::to_string(idx) + ") with size " + std::to_string(size) + " returned " + (ok ? "true" : "false"));
                  if (ok) { if (idx < model.size()) model[idx] = x; else model.push_back(x); } if (idx >= size) r.nontrivial = true; break; }
        case 2: { bool ok = cbor_array_replace(cont, idx, x); bool want = idx < size; if (ok != want) fail("step " + std::to_string(step) + " replace(" + std::to_string(idx) + ") with size " + std::to_string(size) + " returned " + (ok ? "true" : "false"));
                  if (ok && idx < model.size()) model[idx] = x; if (idx >= size) r.nontrivial = true; break; }
        default: { cbor_item_t* g = cbor_array_get(cont, idx);
                  if (idx < size) { if (g != model[idx]) fail("step " + std::to_string(step) + " get(" + std::to_string(idx) + ") returned a different item than the list holds"); if (g) mine.push_back(g); }
                  else { r.nontrivial = true; if (g != nullptr) { fail("step " + std::to_string(step) + " get(" + std::to_string(idx) + ") beyond size " + std::to_string(size) + " did not return NULL"); } }
                  break; }
      }
    } else if (kind == K_DEFMAP || kind == K_INDEFMAP) {
      cbor_item_t* v = fresh_elem(kind, step + 1000); mine.push_back(v);
      struct cbor_pair p{x, v}; bool ok = cbor_map_add(cont, p);
      if (ok == full) fail("step " + std::to_string(step) + " map_add with size " + std::to_string(size) + " returned " + (ok ? "true" : "false"));
      if (ok) { model.push_back(x); model.push_back(v); } if (full) r.nontrivial = true;
    } else {
      bool ok = kind == K_BSTR ? cbor_bytestring_add_chunk(cont, x) : cbor_string_add_chunk(cont, x);
      if (!ok) fail("add_chunk refused"); else model.push_back(x);
    }
    // observable state against the list model after every step
    if (kind == K_DEFARR || kind == K_INDEFARR) {
      if (cbor_array_size(cont) != model.size()) fail("step " + std::to_string(step) + ": size " + std::to_string(cbor_array_size(cont)) + ", list has " + std::to_string(model.size()));
      else { if (cbor_array_size(cont) > cbor_array_allocated(cont)) fail("size exceeds allocated"); if (definite && cbor_array_allocated(cont) != cap) fail("capacity of a definite array changed");
             for (size_t i = 0; i < model.size(); i++) if (cbor_array_handle(cont)[i] != model[i]) { fail("step " + std::to_string(step) + ": element " + std::to_string(i) + " differs from the list"); break; } }
    } else if (kind == K_DEFMAP || kind == K_INDEFMAP) {
      if (cbor_map_size(cont) * 2 != model.size()) fail("step " + std::to_string(step) + ": map size " + std::to_string(cbor_map_size(cont)) + ", list has " + std::to_string(model.size() / 2));
      else { if (cbor_map_size(cont) > cbor_map_allocated(cont)) fail("size exceeds allocated"); if (definite && cbor_map_allocated(cont) != cap) fail("capacity of a definite map changed");
             for (size_t i = 0; i < model.size() / 2; i++) if (cbor_map_handle(cont)[i].key != model[2 * i] || cbor_map_handle(cont)[i].value != model[2 * i + 1]) { fail("pair " + std::to_string(i) + " differs from the list"); break; } }
    } else {
      size_t cc = kind == K_BSTR ? cbor_bytestring_chunk_count(cont) : cbor_string_chunk_count(cont);
      cbor_item_t** ch = kind == K_BSTR ? cbor_bytestring_chunks_handle(cont) : cbor_string_chunks_handle(cont);
      if (cc != model.size()) fail("chunk count differs from the list");
      else for (size_t i = 0; i < cc; i++) if (ch[i] != model[i]) { fail("chunk " + std::to_string(i) + " differs from the list"); break; }
    }
  }
  for (auto* p : mine) { cbor_item_t* q = p; cbor_decref(&q); }
  cbor_decref(&cont);
  if (r.ok && va::g.live_blocks) { r.ok = false; r.msg = "blocks left allocated after releasing the container and every element"; }
  va::release_all();
  return r;
}
static Result judge_grow(const Case& c) {
  Result r; r.klass = "GROW"; r.nontrivial = true;
  int kind = (int)c.aux[0]; size_t n = (size_t)c.aux[1];
  if (!(kind == K_INDEFARR || kind == K_INDEFMAP || kind == K_BSTR || kind == K_TSTR)) { r.skipped = true; return r; }
  va::reset_counters(); use_va();
  // the growth steps of a million-entry container are single requests of tens of MiB: lift the harness cap for this run
  struct CapGuard { size_t saved; CapGuard() : saved(va::g.single_cap) { va::g.single_cap = (size_t)1 << 30; } ~CapGuard() { va::g.single_cap = saved; } } capguard;
  cbor_item_t* cont = kind == K_INDEFARR ? cbor_new_indefinite_array() : kind == K_INDEFMAP ? cbor_new_indefinite_map() : kind == K_BSTR ? cbor_new_indefinite_bytestring() : cbor_new_indefinite_string();
  std::vector<cbor_item_t*> model;
  size_t prev_alloc = 0; uint64_t growth_requests = 0;   // allocator requests granted inside the insertion calls themselves
  auto fail = [&](const std::string& m) { r.ok = false; if (r.msg.empty()) r.msg = std::string(kname(kind)) + ": " + m; };
  for (size_t i = 0; i < n && r.ok; i++) {
    cbor_item_t* x = fresh_elem(kind, i); bool ok; bool already = false;
    // Allocation-starved attempts first.  Mode 0 refuses only the next request (an implementation may fall back to a
    // smaller growth and still succeed — then it is an ordinary successful insertion); mode 1 refuses every request
    // (success is then impossible if growth was needed).  A refused insertion is not a successful operation: the list
    // must stay exactly as it was.
    for (int mode = 0; mode < 2 && !already && r.ok && (n <= 300 || (i & (i - 1)) == 0); mode++) {
      if (mode == 0) va::g.fail_at = (int64_t)va::g.requests; else va::g.fail_from = (int64_t)va::g.requests;
      uint64_t rq0 = va::g.requests;
      bool okr;
      if (kind == K_INDEFARR) okr = cbor_array_push(cont, x);
      else if (kind == K_INDEFMAP) { struct cbor_pair p{x, x}; okr = cbor_map_add(cont, p); }
      else okr = kind == K_BSTR ? cbor_bytestring_add_chunk(cont, x) : cbor_string_add_chunk(cont, x);
      uint64_t nrefused = va::g.refused_fault; bool refused = nrefused > 0; va::g.refused_fault = 0;
      va::reset_faults();
      vh::counters["growth_refusal_attempts"] += refused;
      if (okr) growth_requests += (va::g.requests - rq0) - nrefused;
      if (okr) {
        if (refused && mode == 1) fail("insertion " + std::to_string(i) + " reported success although the allocator refused every request of the growth");
        already = true;   // inserted (no growth needed, or a fallback after one refusal)
      } else {
        if (!refused) { fail("insertion " + std::to_string(i) + " refused by an indefinite container although no allocation was refused"); break; }
        size_t sz = kind == K_INDEFARR ? cbor_array_size(cont) : kind == K_INDEFMAP ? cbor_map_size(cont) : kind == K_BSTR ? cbor_bytestring_chunk_count(cont) : cbor_string_chunk_count(cont);
        if (sz != i) fail("a refused insertion changed the size from " + std::to_string(i) + " to " + std::to_string(sz));
        void* hd = kind == K_INDEFARR ? (void*)cbor_array_handle(cont) : kind == K_INDEFMAP ? (void*)cbor_map_handle(cont) : kind == K_BSTR ? (void*)cbor_bytestring_chunks_handle(cont) : (void*)cbor_string_chunks_handle(cont);
        if (i > 0 && hd == nullptr) fail("a refused insertion lost the contents (handle is NULL with " + std::to_string(i) + " entries)");
        for (size_t j = 0; j < i && r.ok && (i <= 64 || j + 8 >= i || j < 8); j++) {
          cbor_item_t* got = kind == K_INDEFARR ? cbor_array_handle(cont)[j] : kind == K_INDEFMAP ? cbor_map_handle(cont)[j].key : kind == K_BSTR ? cbor_bytestring_chunks_handle(cont)[j] : cbor_string_chunks_handle(cont)[j];
          if (got != model[j]) fail("a refused insertion changed element " + std::to_string(j));
        }
      }
    }
    if (!r.ok) break;
    uint64_t rq1 = va::g.requests;
    if (already) ok = true;
    else if (kind == K_INDEFARR) ok = cbor_array_push(cont, x);
    else if (kind == K_INDEFMAP) { struct cbor_pair p{x, x}; ok = cbor_map_add(cont, p); }
    else ok = kind == K_BSTR ? cbor_bytestring_add_chunk(cont, x) : cbor_string_add_chunk(cont, x);
    growth_requests += va::g.requests - rq1;
    if (!ok) fail("insertion " + std::to_string(i) + " refused by an indefinite container");
    model.push_back(x);
    size_t size = kind == K_INDEFARR ? cbor_array_size(cont) : kind == K_INDEFMAP ? cbor_map_size(cont) : kind == K_BSTR ? cbor_bytestring_chunk_count(cont) : cbor_string_chunk_count(cont);
    if (size != i + 1) fail("size " + std::to_string(size) + " after " + std::to_string(i + 1) + " insertions");
    if (kind == K_INDEFARR || kind == K_INDEFMAP) {
      size_t al = kind == K_INDEFARR ? cbor_array_allocated(cont) : cbor_map_allocated(cont);
      if (size > al) fail("size exceeds allocated");
      if (al < prev_alloc) fail("capacity shrank while growing");
      prev_alloc = al;
    }
    bool checkpoint = n <= 4096 ? ((i & (i + 1)) == 0 || i + 1 == n) : ((i & 1023) == 1023 || i + 1 == n);
    if (checkpoint && r.ok) {
      for (size_t j = 0; j <= i; j++) {
        cbor_item_t* got = kind == K_INDEFARR ? cbor_array_handle(cont)[j] : kind == K_INDEFMAP ? cbor_map_handle(cont)[j].key : kind == K_BSTR ? cbor_bytestring_chunks_handle(cont)[j] : cbor_string_chunks_handle(cont)[j];
        if (got != model[j]) { fail("element " + std::to_string(j) + " lost or reordered after " + std::to_string(i + 1) + " insertions"); break; }
      }
    }
  }
  // every allocator request made by the insertion calls themselves is a growth step (the elements are created outside)
  uint64_t re = growth_requests;
  double bound = 8 + 4 * std::ceil(std::log2((double)n + 1));
  if (r.ok && (double)re > bound) fail(std::to_string(n) + " insertions cost " + std::to_string(re) + " (re)allocations; a geometric growth policy needs at most " + std::to_string((int)bound));
  vh::counters["growth_insertions"] += n; vh::counters["growth_reallocs"] += re;
  for (auto* p : model) { cbor_item_t* q = p; cbor_decref(&q); }
  cbor_decref(&cont);
  if (r.ok && va::g.live_blocks) { r.ok = false; r.msg = "blocks left allocated"; }
  va::release_all();
  return r;
}

// ---------------------------------------------------------------------------- C13 ALOAD / STATELESS
static void noop_u8(void*, uint8_t) {} static void noop_u16(void*, uint16_t) {} static void noop_u32(void*, uint32_t) {} static void noop_u64(void*, uint64_t) {}
static void noop_s(void*, cbor_data, uint64_t) {} static void noop_v(void*) {} static void noop_f(void*, float) {} static void noop_d(void*, double) {} static void noop_b(void*, bool) {}
static struct cbor_callbacks noop_table() {
  struct cbor_callbacks c;
  c.uint8 = noop_u8; c.uint16 = noop_u16; c.uint32 = noop_u32; c.uint64 = noop_u64; c.negint8 = noop_u8; c.negint16 = noop_u16; c.negint32 = noop_u32; c.negint64 = noop_u64;
  c.byte_string = noop_s; c.byte_string_start = noop_v; c.string = noop_s; c.string_start = noop_v; c.array_start = noop_u64; c.indef_array_start = noop_v; c.map_start = noop_u64; c.indef_map_start = noop_v;
  c.tag = noop_u64; c.float2 = noop_f; c.float4 = noop_f; c.float8 = noop_d; c.undefined = noop_v; c.null = noop_v; c.boolean = noop_b; c.indef_break = noop_v;
  return c;
}
static const struct cbor_callbacks kNoop = noop_table();

static Result judge_aload(const Case& c) {
  Result r; r.klass = "ALOAD";
  if (!g_hooks) { r.skipped = true; return r; }
  ar::reset_all(); use_arena();
  std::string msg;
  {
    struct cbor_load_result res; cbor_item_t* it;
    { ar::InLib g; it = cbor_load(c.data.data(), c.data.size(), &res); }
    if (it) {
      r.nontrivial = true;
      size_t sz; { ar::InLib g; sz = cbor_serialized_size(it); }
      unsigned char* buf = nullptr; size_t bl = 0;
      { ar::InLib g; cbor_serialize_alloc(it, &buf, &bl); }
      if (buf) { ar::InLib g; _cbor_free(buf); }
      cbor_item_t* cp; { ar::InLib g; cp = cbor_copy(it); }
      if (cp) { ar::InLib g; cbor_decref(&cp); }
      { ar::InLib g; cbor_decref(&it); }
      (void)sz;
    } else r.nontrivial = c.data.size() >= 2;
  }
  if (ar::g.libc_mallocs_in_lib || ar::g.libc_frees_in_lib) msg = "C library heap used inside a libcbor call (" + std::to_string(ar::g.libc_mallocs_in_lib) + " malloc, " + std::to_string(ar::g.libc_frees_in_lib) + " free) while a custom allocator is installed";
  else if (ar::g.foreign) msg = "a pointer that did not come from the installed allocator was handed to its free/realloc";
  else if (ar::g.double_free) msg = "a block was released twice through the installed allocator";
  else if (ar::g.live_blocks) msg = std::to_string(ar::g.live_blocks) + " block(s) obtained from the installed allocator were never handed to its free";
  use_va();
  if (!msg.empty()) { r.ok = false; r.msg = msg; }
  return r;
}
// fault schedules under the arena: the failure paths must release through the installed allocator too
static Result judge_afault(const Case& c) {
  Result r; r.klass = "AFAULT"; r.nontrivial = c.aux[0] > 0;
  if (!g_hooks) { r.skipped = true; return r; }
  ar::reset_all(); use_arena();
  std::string msg;
  cbor_item_t* arg = nullptr;
  if (c.aux[1] != 0) { struct cbor_load_result res; arg = cbor_load(c.data.data(), c.data.size(), &res); if (!arg) { use_va(); r.skipped = true; return r; } }
  uint64_t live_before = ar::g.live_blocks;
  ar::reset_counters();
  ar::g.fail_at = (int64_t)c.aux[0];
  {
    ar::InLib g;
    if (c.aux[1] == 0) { struct cbor_load_result res; cbor_item_t* it = cbor_load(c.data.data(), c.data.size(), &res); if (it) cbor_decref(&it); }
    else if (c.aux[1] == 1) { cbor_item_t* cp = cbor_copy(arg); if (cp) cbor_decref(&cp); }
    else { unsigned char* b = nullptr; size_t l = 0; cbor_serialize_alloc(arg, &b, &l); if (b) _cbor_free(b); }
  }
  ar::g.fail_at = -1;
  if (ar::g.libc_mallocs_in_lib || ar::g.libc_frees_in_lib) msg = "C library heap used inside a libcbor call on an allocation-failure path (" + std::to_string(ar::g.libc_mallocs_in_lib) + " malloc, " + std::to_string(ar::g.libc_frees_in_lib) + " free)";
  else if (ar::g.foreign) msg = "a pointer that did not come from the installed allocator was handed to its free/realloc";
  else if (ar::g.double_free) msg = "a block was released twice through the installed allocator";
  else if (ar::g.live_blocks != live_before) msg = "after a refused allocation " + std::to_string((long long)ar::g.live_blocks - (long long)live_before) + " block(s) of the installed allocator were not handed back to it";
  if (arg) { ar::InLib g; cbor_decref(&arg); }
  use_va();
  if (!msg.empty()) { r.ok = false; r.msg = msg; }
  return r;
}
static Result judge_stateless(const Case& c) {
  Result r; r.klass = "STATELESS"; r.nontrivial = c.data.size() >= 2;
  if (!g_hooks) { r.skipped = true; return r; }
  ar::reset_all(); use_arena();
  // build a tree (allowed to allocate), then the four stateless entry points must not
  struct cbor_load_result res; cbor_item_t* it = cbor_load(c.data.data(), c.data.size(), &res);
  uint64_t rq = ar::g.requests + ar::g.frees;
  std::string msg;
  {
    ar::InLib g;
    size_t off = 0; int guard = 0;
    while (off < c.data.size() && guard++ < 4096) { struct cbor_decoder_result d = cbor_stream_decode(c.data.data() + off, c.data.size() - off, &kNoop, nullptr); if (d.status != CBOR_DECODER_FINISHED || !d.read) break; off += d.read; }
    unsigned char b[16];
    for (int e = 0; e < EN_COUNT; e++) call_encoder(e, c.data.empty() ? 0 : c.data[0] * 0x0101010101010101ull, b, sizeof b);
    if (it) { size_t sz = cbor_serialized_size(it); static unsigned char out[1 << 16]; if (sz && sz <= sizeof out) cbor_serialize(it, out, sz); cbor_serialize(it, out, sz ? sz - 1 : 0); }
  }
  if (ar::g.requests + ar::g.frees != rq) msg = "the streaming decoder / an encoder / cbor_serialize / cbor_serialized_size called the allocator";
  else if (ar::g.libc_mallocs_in_lib || ar::g.libc_frees_in_lib) msg = "the streaming decoder / an encoder / cbor_serialize / cbor_serialized_size used the C library heap";
  if (it) cbor_decref(&it);
  use_va();
  if (!msg.empty()) { r.ok = false; r.msg = msg; }
  return r;
}

static Result run_case(const std::string& prop, const Case& c0) {
  Case mapped;
  if (c0.campaign == "FUZZ") { mapped = c0; mapped.campaign = "HISTR"; if (prop == "C13" && !c0.data.empty()) mapped.aux[3] = c0.data[0] & 1; }
  const Case& c = mapped.campaign.empty() ? c0 : mapped;
  if (c.campaign == "SEQ") return judge_seq(c);
  if (c.campaign == "GROW") return judge_grow(c);
  if (c.campaign == "ALOAD") return judge_aload(c);
  if (c.campaign == "STATELESS") return judge_stateless(c);
  if (c.campaign == "AFAULT") return judge_afault(c);
  return judge_history(prop, c);
}

// ------------------------------------------------------------------------------ campaigns
// concrete op alphabet for the exhaustive short histories (pool positions are small on purpose)
static std::vector<std::array<uint8_t, 4>> alphabet() {
  using namespace hist;
  std::vector<std::array<uint8_t, 4>> A;
  auto op = [&](int o, int a, int b, int c) { A.push_back({(uint8_t)o, (uint8_t)a, (uint8_t)b, (uint8_t)c}); };
  op(H_NEW, 0, 7, 0);      // uint8
  op(H_NEW, 6, 2, 1);      // definite bytestring, payload attached with set_handle
  op(H_NEW, 8, 0, 0);      // indefinite bytestring
  op(H_NEW, 10, 1, 0);     // definite array, capacity 1
  op(H_NEW, 12, 0, 0);     // indefinite array
  op(H_NEW, 15, 0, 0);     // indefinite map
  op(H_NEW, 16, 0, 0);     // tag
  op(H_INCREF, 0, 0, 0); op(H_INCREF, 1, 0, 0);
  op(H_DECREF, 0, 0, 0); op(H_DECREF, 1, 0, 0); op(H_DECREF, 2, 0, 0); op(H_IDECREF, 0, 0, 0);
  op(H_PUSH, 0, 1, 0); op(H_PUSH, 0, 0, 0); op(H_PUSH_MOVE, 0, 1, 0);
  op(H_SET, 0, 1, 0); op(H_REPLACE, 0, 1, 0); op(H_REPLACE, 0, 2, 0); op(H_GET, 0, 0, 0); op(H_GET, 0, 0, 1);
  op(H_MAP_ADD, 0, 1, 2); op(H_MAP_ADD, 0, 1, 1); op(H_ADD_CHUNK, 0, 0, 0);
  op(H_TAG_SET, 0, 1, 0); op(H_TAG_SET, 0, 2, 0); op(H_TAG_GET, 0, 0, 0); op(H_TAG_BUILD, 0, 0, 0);
  op(H_COPY, 0, 0, 0); op(H_COPY, 1, 0, 0); op(H_LOAD, 0x53, 0x01, 0x10); op(H_SERIALIZE, 0, 0, 0); op(H_RESET_HANDLE, 0, 1, 0); op(H_MAP_ADD_MOVE, 0, 1, 2); op(H_CHUNK_MOVE, 0, 0, 0); op(H_TAG_SET_MOVE, 0, 1, 0); op(H_FAULT_NEXT, 0, 0, 0); op(H_FAULT_NEXT, 1, 0, 0);
  return A;
}

static void camp_HISTX(Ctx& ctx, int maxlen) {
  Case c; c.campaign = "HISTX";
  auto A = alphabet(); size_t n = A.size();
  uint64_t idx = 0;
  for (int len = 1; len <= maxlen && !ctx.stop(); len++) {
    uint64_t total = 1; for (int i = 0; i < len; i++) total *= n;
    for (uint64_t v = 0; v < total; v++) {
      if (!ctx.mine(idx++)) continue;
      c.data.clear(); uint64_t x = v;
      for (int i = 0; i < len; i++) { auto& o = A[x % n]; x /= n; c.data.insert(c.data.end(), o.begin(), o.end()); }
      ctx.exec(c);
      if (ctx.stop() || ((v & 0xffff) == 0 && ctx.out_of_time())) { ctx.campaign_exhaustive["HISTX"] = false; return; }
    }
  }
  ctx.campaign_exhaustive["HISTX"] = true;
  ctx.notes["HISTX"] = "every history of 1.." + std::to_string(maxlen) + " ops over an alphabet of " + std::to_string(n) + " concrete ops (new uint/bytestring/chunked string/definite array/indefinite array/indefinite map/tag; incref; decref of slots 0..2; intermediate_decref; push, push of an item into itself's sibling, push(move), set, replace, get in and out of range; map_add with distinct and identical key/value; add_chunk; tag_set on empty and occupied tags; tag_get; build_tag; copy; load; serialize), followed by the client dropping all remaining references";
}
static void camp_HISTR(Ctx& ctx, uint64_t count, uint64_t variant) {
  Case c; c.campaign = "HISTR";
  // opcode weights: creation and structure ops more frequent than reads
  static const int weights[hist::H_COUNT] = {10, 3, 2, 3, 5, 8, 3, 8, 4, 5, 5, 5, 6, 4, 5, 3, 3, 3, 1, 1, 2, 2, 3, 2, 2, 4};
  std::vector<uint8_t> wheel; for (int o = 0; o < hist::H_COUNT; o++) for (int k = 0; k < weights[o]; k++) wheel.push_back((uint8_t)o);
  for (uint64_t i = 0; i < count && !ctx.stop(); i++) {
    if (!ctx.mine(i)) continue;
    size_t ops = 4 + (size_t)(vh::prand(ctx.seed, 101, i) % 197);
    c.data.resize(ops * 4);
    for (size_t k = 0; k < ops; k++) {
      uint64_t x = vh::prand(ctx.seed, 102, i * 256 + k);
      c.data[4 * k] = wheel[x % wheel.size()]; c.data[4 * k + 1] = (uint8_t)(x >> 8); c.data[4 * k + 2] = (uint8_t)(x >> 16); c.data[4 * k + 3] = (uint8_t)(x >> 24);
    }
    memset(c.aux, 0, sizeof c.aux); c.aux[3] = variant;
    ctx.exec(c);
    if ((i & 0xff) == 0 && ctx.out_of_time()) break;
  }
  ctx.distinct_by_construction = false;
  ctx.notes["HISTR"] = "seeded histories of 4..200 ops over the whole interpreter alphabet (src/drv/hist.hpp) on a pool of 10 client references, with shared children, trees imported from cbor_load / cbor_copy / construction programs, out-of-range indices up to size+2";
}
static void camp_SEQ(Ctx& ctx, int maxlen) {
  Case c; c.campaign = "SEQ"; uint64_t idx = 0;
  // arrays: op alphabet = push | set(ic) | replace(ic) | get(ic), ic in the 5 index classes
  std::vector<uint8_t> arr_ops; arr_ops.push_back(0 << 3);
  for (int o = 1; o <= 3; o++) for (int ic = 0; ic < 5; ic++) arr_ops.push_back((uint8_t)((o << 3) | ic));
  struct Cfg { int kind; size_t cap; };
  std::vector<Cfg> cfgs;
  for (size_t cap = 0; cap <= 8; cap++) cfgs.push_back({K_DEFARR, cap});
  cfgs.push_back({K_INDEFARR, 0});
  for (auto& cf : cfgs) {
    int len_here = cf.kind == K_DEFARR && cf.cap > 3 ? maxlen - 1 : maxlen;   // large capacities behave like the indefinite case until full
    for (int len = 1; len <= len_here && !ctx.stop(); len++) {
      uint64_t total = 1; for (int i = 0; i < len; i++) total *= arr_ops.size();
      for (uint64_t v = 0; v < total; v++) {
        if (!ctx.mine(idx++)) continue;
        c.data.clear(); uint64_t x = v; for (int i = 0; i < len; i++) { c.data.push_back(arr_ops[x % arr_ops.size()]); x /= arr_ops.size(); }
        c.aux[0] = (uint64_t)cf.kind; c.aux[1] = cf.cap; ctx.exec(c);
        if (ctx.stop()) return;
      }
      if (ctx.out_of_time()) return;
    }
  }
  // fill-to-capacity-and-beyond for every definite capacity, then every single out-of-range probe
  for (size_t cap = 0; cap <= 8; cap++) for (int ic = 0; ic < 5; ic++) for (int o = 0; o <= 3; o++) {
    if (!ctx.mine(idx++)) continue;
    c.data.assign(cap + 1, 0); c.data.push_back((uint8_t)((o << 3) | ic)); c.data.push_back(0);
    c.aux[0] = K_DEFARR; c.aux[1] = cap; ctx.exec(c);
  }
  // maps and chunked strings have a single mutator: every length 0..capacity+3
  for (int kind : {K_DEFMAP, K_INDEFMAP, K_BSTR, K_TSTR}) for (size_t cap = 0; cap <= (kind == K_DEFMAP ? 8u : 0u); cap++) for (size_t n = 0; n <= cap + 12; n++) {
    if (!ctx.mine(idx++)) continue;
    c.data.assign(n, 0); c.aux[0] = (uint64_t)kind; c.aux[1] = cap; ctx.exec(c);
  }
  ctx.campaign_exhaustive["SEQ"] = !ctx.inconclusive;
  ctx.notes["SEQ"] = "arrays: every sequence of up to " + std::to_string(maxlen) + " calls (one fewer for definite capacities > 3) over {push, set(i), replace(i), get(i)} with i in {0, size-1, size, size+1, size+2}, for definite capacities 0..8 and the indefinite array, plus fill-to-capacity-then-probe runs for each capacity; maps / chunked strings: every number of insertions 0..capacity+12 for definite capacities 0..8 and the indefinite kinds";
}
static void camp_GROW(Ctx& ctx, size_t maxn) {
  Case c; c.campaign = "GROW"; uint64_t idx = 0;
  std::vector<size_t> ns = {1, 2, 3, 4, 5, 7, 8, 9, 15, 16, 17, 31, 33, 63, 64, 65, 100, 127, 128, 129, 255, 257, 500, 1000, 1023, 1025, 2048, 4095, 4096};
  for (size_t big : {(size_t)10000, (size_t)32768, (size_t)65535, (size_t)65537, (size_t)131073, (size_t)1048577}) if (big <= maxn) ns.push_back(big);
  for (int kind : {K_INDEFARR, K_INDEFMAP, K_BSTR, K_TSTR}) for (size_t n : ns) { if (ctx.mine(idx++) && !ctx.stop()) { c.aux[0] = (uint64_t)kind; c.aux[1] = n; c.data.clear(); ctx.exec(c); } }
  ctx.campaign_exhaustive["GROW"] = true;
  ctx.notes["GROW"] = "1.." + std::to_string(maxn) + " insertions into each indefinite container kind; reallocation calls counted by the instrumenting allocator and bounded by 8 + 4*ceil(log2(n+1)); sizes: 1..4096 at and around every power of two, then 10000, 32768, 65535, 65537, 131073 (thorough: 1048577)";
}
static void camp_ALOAD(Ctx& ctx, bool thorough) {
  Case c; uint64_t idx = 0;
  auto both = [&](const gen::Bytes& b) {
    memset(c.aux, 0, sizeof c.aux);
    c.data = b; c.campaign = "ALOAD"; ctx.exec(c); c.campaign = "STATELESS"; ctx.exec(c);
    if (!g_hooks) return;
    // every single-fault schedule of load / copy / serialize_alloc under the arena
    for (uint64_t opk = 0; opk < 3; opk++) {
      ar::reset_all(); use_arena();
      struct cbor_load_result res; cbor_item_t* it = cbor_load(b.data(), b.size(), &res);
      uint64_t N = 0;
      if (it) {
        if (opk == 0) N = ar::g.requests;
        else { ar::reset_counters(); if (opk == 1) { cbor_item_t* cp = cbor_copy(it); if (cp) cbor_decref(&cp); } else { unsigned char* bb = nullptr; size_t l = 0; cbor_serialize_alloc(it, &bb, &l); if (bb) _cbor_free(bb); } N = ar::g.requests; }
        cbor_decref(&it);
      }
      use_va();
      c.campaign = "AFAULT";
      for (uint64_t k = 0; k < N; k++) { c.aux[0] = k; c.aux[1] = opk; ctx.exec(c); }
    }
    memset(c.aux, 0, sizeof c.aux);
  };
  gen::E2* ep = nullptr;
  gen::E2 e(gen::leaves_full(), [&](const gen::Bytes& b, int) {
    uint64_t i = idx++; if (!ctx.mine(i)) return;
    both(b);
    if ((i % 7) == 0) gen::neighbours(b, [&](const gen::Bytes& y, int) { c.data = y; c.campaign = "ALOAD"; ctx.exec(c); });
    if (ctx.stop() || ((i & 0xff) == 0 && ctx.out_of_time())) ep->stop = true;
  });
  ep = &e; e.run(thorough ? 3 : 2);
  gen::pairwise([&](const gen::Bytes& b) { if (ctx.mine(idx++) && !ctx.stop()) both(b); });
  ctx.distinct_by_construction = false;
  ctx.notes["ALOAD"] = "cbor_load / serialized_size / serialize_alloc / copy / release of every E2 and E2p encoding and the single-edit neighbours of every 7th, under an mmap arena allocator with no libc backing and the ASan malloc/free hooks armed during each libcbor call; STATELESS: streaming decoder, all encoders, cbor_serialize and cbor_serialized_size on the same inputs must make zero allocator requests and no libc heap call";
}

static void run_campaigns(Ctx& ctx) {
  bool thorough = ctx.tier == "thorough";
  auto want = [&](const char* n) { return ctx.campaign_filter.empty() || ctx.campaign_filter == n; };
  if (ctx.prop == "C04") {
    if (want("HISTX")) camp_HISTX(ctx, thorough ? 5 : 4);
    if (want("HISTR")) camp_HISTR(ctx, thorough ? 3000000 : 300000, 0);
  } else if (ctx.prop == "C12") {
    if (want("SEQ")) camp_SEQ(ctx, thorough ? 6 : 5);
    if (want("GROW")) camp_GROW(ctx, thorough ? 1048577 : 131073);
    if (want("HISTR")) camp_HISTR(ctx, thorough ? 1000000 : 100000, 0);
  } else {
    if (want("ALOAD")) camp_ALOAD(ctx, thorough);
    if (want("HISTR")) { camp_HISTR(ctx, thorough ? 1000000 : 100000, 0); camp_HISTR(ctx, thorough ? 1000000 : 100000, 1); }
    if (want("HISTX")) camp_HISTX(ctx, 3);
  }
}

static std::string pretty_case(const Case& c) {
  if (c.campaign != "HISTX" && c.campaign != "HISTR" && c.campaign != "FUZZ") return "";
  std::string o;
  for (size_t i = 0; i + 4 <= c.data.size() && i < 4 * 14; i += 4) { char b[64]; snprintf(b, sizeof b, "%s%s(%u,%u,%u)", i ? " " : "", hist::op_name(c.data[i] % hist::H_COUNT), c.data[i + 1], c.data[i + 2], c.data[i + 3]); o += b; }
  if (c.data.size() > 4 * 14) o += " ... (" + std::to_string(c.data.size() / 4) + " ops)";
  return o;
}
static void driver_init() {
  g_devnull = fopen("/dev/null", "w");
  ar::g.a[0].init((size_t)64 << 20); ar::g.a[1].init((size_t)1 << 20);
  g_hooks = ar::install_hooks();
  use_va();
  va::g.single_cap = (size_t)1 << 24;
  va::g.index_blocks = true;
}
static const char* kDriverName = "drv_hist";
#ifndef VH_FUZZ_TARGET
int main(int argc, char** argv) {
  driver_init();
  vh::Driver drv{kDriverName, run_campaigns, run_case, pretty_case};
  return vh::driver_main(argc, argv, drv);
}
#endif
