"""Per-property check specifications: which binaries run, in which library flavour, and how
the evidence describes them."""
from .runner import Job, NCPU

COMMON_ASSUME = [
    'clang 14 AddressSanitizer/UBSan detect every out-of-bounds access, use-after-free and undefined operation that is executed',
    'the reference model (src/ref/refcbor.hpp, written from RFC 8949 sect. 3 / App. C plus the profile sentences of the property) is correct; it is itself exercised by the exhaustive short-string campaign',
    'x86-64 Linux, 64-bit size_t, IEEE-754 floats; library built through the repository CMakeLists with DEBUG assertions on',
]

def rc_job(binary, flavour, gen, tier, success, size, shards=8, unit=1):
    mult = 10 if tier == 'thorough' else 1
    return Job(binary, flavour, ['--rc', gen], shards=shards, timeout=5400, rc=(success * mult, size), label='rapidcheck ' + gen, shrink_unit=unit)

def fz_job(target, replay_bin, replay_flavour, tier, corpus=None, quick_s=20, max_len=512, shards=NCPU, unit=1):
    t = quick_s * 30 if tier == 'thorough' else quick_s
    return Job(target, 'fuzz', [], shards=shards, timeout=t + 600, kind='fuzz', replay_bin=replay_bin, replay_flavour=replay_flavour, fuzz_time=t, max_len=max_len, corpus=corpus,
               label='libFuzzer ' + target, shrink_unit=unit)

def decode_jobs(flavour, gens=('ast', 'deep')):
    def jobs(tier, seed):
        return ([Job('drv_decode', flavour, [], shards=NCPU, timeout=5400)] + [rc_job('drv_decode', flavour, g, tier, 5000, 80) for g in gens] +
                [fz_job('fz_decode', 'drv_decode', flavour, tier, corpus='decode')])
    return jobs

SPECS = {}
NOT_YET = {}

SPECS['C01'] = dict(
    jobs=decode_jobs('asan-strict'), level='exploration', technique='exhaustive small-scope enumeration + grammar enumeration + single-edit mutation under ASan/UBSan/assert',
    rule='Inputs: E1 every byte string of length <=3 (quick) / <=4 (thorough); E2 all grammar-enumerated well-formed encodings with <=3/4 nodes over the full head alphabet; E2p pairwise nesting; E3 every single-edit neighbour; BIG huge declared lengths and nesting at L-1..L+2; WIDE containers and strings with 22..1000 members / bytes really present around every head-width boundary (and 65535/65536-byte strings) with their truncations and +-1 count edits. Each input sits in an exactly-sized heap block and goes through cbor_load, the streaming loop, and on success describe/size/serialize/serialize_alloc/copy/release. Oracle: no sanitizer report, assertion, signal or 20 s stall; item XOR error code; nothing left allocated. Non-trivial = input of >=2 bytes; the enumerators emit each case once per campaign (E3 cases are de-duplicated by hash).',
    assumptions=COMMON_ASSUME + ['termination is judged by a 20 s no-progress watchdog for inputs that normally take microseconds'],
    level_text='Exploration: exhaustive for all byte strings up to 3 (4) bytes and for the enumerated grammar/neighbour campaigns, a sample beyond; memory safety and assertions are judged by ASan/UBSan/DEBUG asserts on executed paths only.',
    level_note='Trusts clang-14 ASan/UBSan to flag executed memory errors / UB; a stall shorter than the 20 s watchdog is not seen; absence beyond the explored inputs is not established.')

SPECS['C02'] = dict(
    jobs=decode_jobs('asan'), level='exploration', technique='differential testing against an independent reference decoder over exhaustive/enumerated/mutated inputs',
    rule='Same input campaigns as C01. Oracle: cbor_load returns an item iff refcbor.classify accepts; on accept the tree observed through public getters equals the reference AST node by node (type, width, value, float bits with NaN==NaN, tag, flavour, chunk boundaries, order, fill), every refcount is 1, read == encoded length, no node or buffer lies in the input block, and the tree is unchanged after the input block is overwritten and freed. Non-trivial = >=2 complete heads, or a single-edit neighbour of an accepted item. Every judged input is also decoded in a receive buffer at a fixed address that was used just before for a different, incomplete input (a string head declaring 2^20 bytes, the own initial byte with an all-ones argument, the input cut short): the answer must equal the answer on the fresh block (no state kept between calls).',
    assumptions=COMMON_ASSUME + ['the harness allocator refuses single requests above its cap; which head a refusal belongs to is observed by decoding growing prefixes and handed to the reference (never predicted from declared counts or slot sizes); counts >= 2^56 admit MEMERROR on the spot as well as carrying on; cases hitting the total cap are skipped and counted'],
    level_text='Exploration by differential testing: complete for every byte string up to 3 (4) bytes and every enumerated item / single-edit neighbour; elsewhere a sample. The reference decoder is independent of libcbor.',
    level_note='The reference model is trusted (validated by 0 disagreements on the exhaustive campaigns after the D1..D5 fixes); observation is through public getters only.')

SPECS['C05'] = dict(
    jobs=decode_jobs('asan'), level='exploration', technique='differential testing of (error code, position) against the reference classifier incl. all proper prefixes; two-pattern sentinel for unwritten fields',
    rule='Same input campaigns as C01; only inputs the reference rejects are judged. Oracle: NULL; (code, position) is in the reference admissible set (two members only for the documented late detection inside chunked strings); every proper prefix of an enumerated item (E3 truncations) gets NOTENOUGHDATA/NODATA, never a hard error; read/position/code all written (result pre-filled with 0xAA.. and 0x55..); no block left allocated. Non-trivial = rejected input with >=1 complete head. Every judged input is also decoded in a receive buffer at a fixed address that was used just before for a different, incomplete input; code, position and read must equal those on the fresh block.',
    assumptions=COMMON_ASSUME,
    level_text='Exploration by differential testing of the failure verdict: complete for every byte string up to 3 (4) bytes, all proper prefixes of all enumerated items and all single-edit corruptions; elsewhere a sample.',
    level_note='The reference classifier (DESIGN.md Appendix A) is trusted; where the property allows late detection the oracle admits both verdicts, so it cannot tell which of the two a change picks.')

SPECS['C14'] = dict(
    jobs=decode_jobs('asan', gens=('pair',)), level='exploration', technique='metamorphic relation load(x||y) == load(x) over enumerated x and y; sequence splitting',
    rule='PAIR: x = every E2 item (<=2 nodes quick, <=3 thorough) and every E2p item, decoded alone in an exactly |x|-byte block and again followed by y in {each of the 256 bytes, 14 small items, garbage, a 2^64-1 string head}; trees (observed via getters) and read must agree. SEQ: concatenations of 2..6 items split by repeated cbor_load at offset += read must give the same trees as the items alone and end exactly at the buffer end. Non-trivial = y non-empty and |x|>=2 (PAIR) / >=2 items (SEQ). PAIR cases additionally decode x, x||y and x again through one receive buffer at a fixed address with a past (a different incomplete input tried there before); each answer must equal the one on a fresh block.',
    assumptions=COMMON_ASSUME[:1] + COMMON_ASSUME[2:] + ['the reference classifier is consulted only to tell whether x is a complete item when x alone fails to decode (then x||y must fail too)'],
    level_text='Exploration by a metamorphic relation (the reference model only guards one corner): complete over the enumerated x and the listed y; sequences are sampled.',
    level_note='x ranges over enumerated well-formed items only; y over single bytes, small items and a few garbage strings, not all strings.')

def stream_jobs_for(gens):
    def jobs(tier, seed):
        return ([Job('drv_stream', 'asan', [], shards=NCPU, timeout=5400)] + [rc_job('drv_stream', 'asan', g, tier, 8000, 80) for g in gens] +
                ([fz_job('fz_stream', 'drv_stream', 'asan', tier, corpus='stream', quick_s=15, max_len=256)] if gens else []))
    return jobs
stream_jobs = stream_jobs_for(())

STREAM_ASSUME = [COMMON_ASSUME[0], 'the reference tokeniser (src/ref/refcbor.hpp read_head/tokenise, written from RFC 8949 sect. 3 and the profile) is correct', COMMON_ASSUME[2]]

SPECS['C08'] = dict(
    jobs=stream_jobs_for(('head',)), level='exploration', technique='exhaustive/boundary enumeration of heads x buffer lengths against a reference tokeniser, with a recording callback table',
    rule='HEAD campaign: every initial byte (256) x every buffer length 0..head length+1 x argument values (all one- and two-byte arguments exhaustively; boundary and seeded values for four/eight-byte ones incl. declared lengths up to 2^64-1); definite strings also with payload one short/exact/one extra. Oracle per call: FINISHED with exactly one callback (right slot, arguments, payload pointer = buffer+head, inside the buffer) and read = head(+payload) length; or NEDATA with no callback, read 0, n < required <= pending length (128-bit); or ERROR with no callback, read 0 for reserved/unsupported bytes; zero allocator calls; identical result when repeated and after unrelated calls; FINISHED independent of bytes beyond read (exact-size prefix, and flipped suffix). Non-trivial = buffer of >=1 byte whose head takes an argument or payload; distinct by buffer bytes. Statelessness: the call is repeated; the empty buffer is polled between calls (NEDATA/0/1, no callback); the same bytes are decoded in a buffer whose address is reused from case to case after six different calls on that buffer with the same initial byte (cut head, all-ones argument, one byte fewer, last byte changed, one byte more, itself) and must be answered as on the fresh copy. --replay repeats a passing case up to 8192 times in one process.',
    assumptions=STREAM_ASSUME,
    level_text='Exploration: exhaustive per initial byte for immediate, one- and two-byte arguments; boundary grid plus seeded values for wider arguments.',
    level_note='Trusts the reference tokeniser; "allocates nothing" is observed through the installed allocator (libc bypass is the business of C13).')

SPECS['C09'] = dict(
    jobs=stream_jobs_for(('frag',)), level='exploration', technique='model-based testing of the buffering client loop: event sequence vs. independent tokenisation over generated (stream, fragmentation) pairs',
    rule='FRAG campaign: streams = concatenations of 1..4 enumerated items, raw sequences of 1..6 random heads, and specials (huge declared lengths, reserved bytes, truncated tails); fragmentations = one-shot, every single cut point, byte-at-a-time, 8 seeded multi-cut lists per stream. The client of the property statement is simulated (each call on an exactly-sized copy of the buffered bytes). Oracle: events equal the reference tokenisation (slot, arguments, payload bytes, order); every wait has buffered < required <= what the pending item occupies; progress on FINISHED; final state consistent with the tokenisation (all delivered / ERROR at the reserved byte / waiting on the incomplete tail). Non-trivial = some cut strictly inside a head or payload; distinct by (stream, cuts). The whole client additionally runs twice in a row through one receive buffer at a fixed address (unconsumed bytes moved to the front), after that buffer had been used for an abandoned different item with the same initial byte; a client with nothing buffered polls with the empty buffer (NEDATA, required 1).',
    assumptions=STREAM_ASSUME,
    level_text='Exploration: all single cuts and byte-wise delivery of each generated stream, sampled multi-cut fragmentations; streams are sampled.',
    level_note='Trusts the reference tokeniser; the client loop is the one described in the property, implemented in the driver.')

SPECS['C10'] = dict(
    jobs=stream_jobs, level='exploration', technique='exhaustive small domains + boundary/seeded sweeps: encoder output vs. reference head, then round-trip through the streaming decoder',
    rule='ENC campaign over every cbor_encode_* function: all 8- and 16-bit values, all ctrl values except 24..31 (no RFC encoding), bool/null/undef/break/indefinite starts, every half pattern; 32/64-bit and width-agnostic encoders on 0..70000, all 2^k-1/2^k/2^k+1, width boundaries and seeded values of random bit length; single/double exponent x boundary mantissas + seeded. Oracle: bytes == RFC 8949 head from the reference (NaN canonical), return == length, bytes beyond untouched, decoder fires the matching slot with identical value and consumes exactly the bytes written (unsupported simple values must give ERROR; string heads are decoded with and without payload). Non-trivial = head longer than one byte; distinct by (encoder, value). Every encoder call is repeated with a really mapped buffer whose size is 2^31-1 .. 2^32+9 (does not fit an int / a uint32_t): same return value and bytes.',
    assumptions=STREAM_ASSUME,
    level_text='Exploration: exhaustive for 8/16-bit domains, constants and all half patterns; boundary + seeded elsewhere.',
    level_note='cbor_encode_half is judged only on NaN and half-representable floats (its documented domain for exactness; totality on other floats is C15).')

def tree_jobs(tier, seed):
    return [Job('drv_tree', 'asan', [], shards=NCPU, timeout=5400), rc_job('drv_tree', 'asan', 'prog', tier, 4000, 80), rc_job('drv_tree', 'asan', 'astok', tier, 4000, 80, shards=4),
            fz_job('fz_tree', 'drv_tree', 'asan', tier, quick_s=15, max_len=256)]

TREE_ASSUME = [COMMON_ASSUME[0], 'the reference encoder (src/ref/refcbor.hpp encode, written from RFC 8949 and the rules stated in C03) is correct', COMMON_ASSUME[2],
               'UBSan nonnull-attribute is disabled in this flavour: memcpy(dst, NULL, 0) on handle-less definite strings is outside every listed property']

SPECS['C03'] = dict(
    jobs=tree_jobs, level='exploration', technique='round-trip + differential against a reference encoder over decoder-made and API-constructed trees (enumerated and seeded construction programs)',
    rule='Trees: DEC = cbor_load of every E2 (<=2 nodes quick / <=3 thorough) and E2p encoding; PROG = byte-coded construction programs through every cbor_new_*/cbor_build_* (all 1- and 2-byte programs exhaustively, seeded programs of 2..49 bytes); DEEP = API-built nests up to the decoder limit. Oracle: the tree observed through getters equals what the construction calls are documented to build; cbor_serialize_alloc bytes == reference RFC 8949 encoding of the observed tree (stored widths, shortest heads, break-terminated indefinites, canonical NaN); cbor_load of those bytes consumes all of them and gives an equal tree (NaN==NaN); serializing that tree gives the identical bytes; nothing left allocated. Non-trivial = >=3 nodes, or an indefinite item / NaN / width-boundary value / shared node; distinct by construction program or input bytes. PROG trees include chunks that receive their payload after being attached and simple values 0..19 / 32..255 (serialized per RFC; no load-back, libcbor\'s decoder does not accept them); two short-buffer cbor_serialize calls (one byte short, half) precede every judged serialization.',
    assumptions=TREE_ASSUME,
    level_text='Exploration: exhaustive over the enumerated encodings and all 1- and 2-byte construction programs; seeded sample of longer programs.',
    level_note='Trusts the reference encoder; API-built trees are limited to what treeprog.hpp can express (no cycles, no unset ints/floats, no simple values 24..31 — the preconditions stated in the property; simple values 0..19 and 32..255 are serialized but not loaded back).')

SPECS['C07'] = dict(
    jobs=tree_jobs, level='exploration', technique='exhaustive buffer-size sweep (n = 0..size+2, exact heap blocks with sentinel fill under ASan) over generated trees; encoder x value x n sweep',
    rule='For every tree of the C03 campaigns: every n in 0..size+2 with an exactly n-byte heap block filled with 0xC5: cbor_serialize returns cbor_serialized_size iff n >= size else 0, bytes [size,n) stay 0xC5, ASan guards everything past n; cbor_serialize_alloc returns size, sets *buffer_size = size (or accepts NULL), the block it obtained is exactly size bytes and holds the same bytes. ENCN: every cbor_encode_* x boundary/seeded values x n in 0..10: returns 0 with the buffer untouched, or the head length with only those bytes written and equal to the reference head. Cases are trees (each sweeps all n; counters.tree_n_pairs is the number of (tree,n) pairs) and (encoder,value) pairs. Non-trivial = tree with >=2 nodes, an indefinite item or size >= 3. cbor_serialize and every encoder are additionally called with a really mapped buffer of 2^31-1 .. 2^32+9 bytes. After all that the root container (if it takes one) gets one more element and is measured and serialized again: the size must follow the change.',
    assumptions=TREE_ASSUME,
    level_text='Exploration: for each generated tree the buffer-size dimension is exhaustive; trees and encoder values are enumerated/sampled as in C03.',
    level_note='Writes outside the first n bytes are detected by ASan red zones of the exactly-sized block.')

SPECS['C11'] = dict(
    jobs=tree_jobs, level='exploration', technique='metamorphic/invariant checks on cbor_copy over generated trees: byte-image snapshot of the source, address-set disjointness, mutate/release one side and re-check the other under ASan',
    rule='Trees of the C03 campaigns (incl. shared sub-items, empty containers, zero-chunk indefinite strings, 64-bit values, partially filled definite containers), each in two variants (mutate-then-release the copy / the source). Oracle: copy serializes to the same bytes and has the same observed shape; every copy node has refcount 1 and appears once; node and buffer address ranges of copy and source are disjoint; the byte image of every source block is unchanged by cbor_copy; a copy starved of memory (every single request of the copy refused in turn) returns NULL and leaves every block that existed before byte-identical; after mutating every int/string byte/float and pushing to every indefinite array of one tree the other still serializes identically; after releasing one tree the other is intact (ASan) and nothing is left allocated at the end. Non-trivial = tree with a container and a string or a shared node.',
    assumptions=TREE_ASSUME,
    level_text='Exploration over enumerated and seeded trees; independence is checked by actual mutation and release, not only by address comparison.',
    level_note='Source integrity is judged on the byte image of allocator blocks, i.e. without knowledge of the struct layout.')

def fault_jobs(tier, seed):
    return [Job('drv_fault', 'asan', [], shards=NCPU, timeout=5400), fz_job('fz_fault', 'drv_fault', 'asan', tier, corpus=None, quick_s=15, max_len=200)]

SPECS['C06'] = dict(
    jobs=fault_jobs, level='fault_enumeration', technique='exhaustive enumeration of single-fault and fail-stop allocation schedules per scenario, with live-set and byte-image comparison',
    rule='Scenarios: every cbor_new_*/cbor_build_* call; push / set(size) / map_add / add_chunk on definite and indefinite containers at every size 0..64 (0..300 thorough); cbor_load, cbor_copy and cbor_serialize_alloc on every E2 encoding (<=2 nodes quick / <=3 thorough) and every E2p encoding; cbor_copy / cbor_serialize_alloc / the construction itself on API-made trees from all 1-byte and seeded construction programs. For each scenario the N allocator requests of a fault-free run are counted, then request k alone (k=0..N-1) and every request from k on are refused: 2N schedules, exhaustive. Oracle: the documented failure channel (NULL / false / 0 with *buffer==NULL and *buffer_size==0 / MEMERROR positioned just past the head that owns the refused request, determined from request counts of prefix decodes); no crash or sanitizer report; the allocator live set after the call equals the live set before, and the byte image of every prior block (arguments, contents, refcounts) is unchanged. Non-trivial = the refused request is not the first (something had to be unwound) or fail-stop mode; distinct by (scenario, k, mode).',
    assumptions=[COMMON_ASSUME[0], COMMON_ASSUME[2], 'allocation failure is injected only through the allocator installed with cbor_set_allocs; request numbering is deterministic for a given scenario'],
    level_text='Fault enumeration: for every scenario in the corpus all single-fault and all fail-stop schedules are executed (exhaustive in the fault dimension); the scenario corpus itself is enumerated/sampled.',
    level_note='Atomicity is judged on the byte image of every block live before the call, so it needs no knowledge of struct layout; scenarios with more than a few hundred requests are only sampled (thorough tier).')

def hist_jobs(tier, seed):
    return [Job('drv_hist', 'asan', [], shards=NCPU, timeout=5400, shrink_unit=4), rc_job('drv_hist', 'asan', 'hist', tier, 3000, 80, unit=4),
            fz_job('fz_hist', 'drv_hist', 'asan', tier, quick_s=15, max_len=800, unit=4)]

HIST_ASSUME = [COMMON_ASSUME[0], COMMON_ASSUME[2],
               'the ownership rules modelled are the documented ones (DESIGN.md Appendix B): containers hold one reference per slot; cbor_tag_set_item on an occupied tag leaves the old reference with the client; cbor_move gives a client reference to the callee; undefined uses (cycles, tag_item on an empty tag, double set_handle) are never generated']

SPECS['C04'] = dict(
    jobs=hist_jobs, level='exploration', technique='model-based (stateful) testing: generated API histories executed against a shadow ownership graph, refcounts and block liveness compared after every step',
    rule='HISTX: every history of 1..4 (thorough 1..5) ops over a 38-op alphabet of concrete calls (new of each container kind, incref, decref, intermediate_decref, push, push(move), set, replace, get in/out of range, map_add incl. key==value and with cbor_move, add_chunk (also moved), tag_set on empty/occupied tags (also moved), tag_get, build_tag, copy, load, serialize, in-place set_handle trim, and fault_next: the following call runs with its k-th allocator request refused and the model follows the outcome the call reports) on a small pool; HISTR: seeded histories of 4..200 ops over the whole alphabet on 10 client slots with shared children and trees imported from cbor_load / cbor_copy / construction programs. After every step: cbor_refcount of every live item == client references + container edges of the model; every item the model says died in this step was released by the allocator and no item the model says is alive was (allocation serials, not addresses); ASan guards use-after-free/double free; at the end the client drops everything and the allocator live set must be empty. Non-trivial = some item had >=2 owners and a container was released while a child survived or vice versa; distinct by program. The load op of a history additionally performs failing decodes (a proper prefix; an input one level deeper than CBOR_MAX_STACK_SIZE) whose allocations must be gone in the final balance.',
    assumptions=HIST_ASSUME,
    level_text='Exploration with a reference model: exhaustive for short histories over a fixed op alphabet, sampled for long ones.',
    level_note='The model follows the return values the implementation reports (a refused push takes no reference); whether those return values are right is C12.')

SPECS['C12'] = dict(
    jobs=hist_jobs, level='exploration', technique='model-based testing against an abstract list: exhaustive short op sequences per container kind/capacity, growth runs with realloc counting, seeded histories',
    rule='SEQ: arrays: every sequence of up to 5 (thorough 6) calls over {push, set(i), replace(i), get(i)}, i in {0, size-1, size, size+1, size+2}, for definite capacities 0..8 and the indefinite array, plus fill-then-probe runs; maps and chunked strings: every insertion count 0..capacity+12. After every call: return value, size, allocated >= size, fixed capacity of definite containers and element identity through the handle equal the abstract list; out-of-range get is NULL, out-of-range set/replace false. GROW: 1..4096 (thorough 65537) insertions into each indefinite kind, each growth step first attempted with the next allocator request refused and with every request refused (a refused insertion must leave size, handle and elements unchanged; a fallback that succeeds counts as an insertion), contents checked at checkpoints, allocator requests made inside the insertion calls (growth steps, by realloc or by allocate-copy-release) <= 8 + 4*ceil(log2(n+1)), capacity never shrinks. HISTR: seeded histories with the same predictions on many containers at once. Non-trivial = the sequence hits a boundary (full definite container, index >= size) or causes >=2 growths. GROW sizes: 1..4096 around every power of two, 10000, 32768, 65535, 65537, 131073 (thorough 1048577).',
    assumptions=HIST_ASSUME[:2] + ['the logarithmic bound is deliberately loose (doubling needs 1+ceil(log2 n) growth steps, factor 1.5 about 1.7*log2 n); a linear growth policy needs n/k steps and is caught for n >= 1000 at k = 16'],
    level_text='Exploration with a list model: exhaustive for short sequences per container configuration; growth clause checked at 29 (33) sizes per kind.',
    level_note='Index classes stand for indices (first, last, size, size+1, size+2); capacities above 8 are only covered by growth runs and seeded histories.')

SPECS['C13'] = dict(
    jobs=hist_jobs, level='exploration', technique='re-running generated histories and decode pipelines under a tagging allocator and under an mmap arena allocator with ASan malloc/free hooks armed inside every libcbor call',
    rule='ALOAD/AFAULT: cbor_load / serialized_size / serialize_alloc / copy / release, and every single-fault schedule of load / copy / serialize_alloc, on every E2 (<=2 nodes quick, <=3 thorough) and E2p encoding and single-edit neighbours of every 7th, under an arena allocator with no libc backing: any libc malloc/free observed (ASan hooks) while inside a libcbor call is a bypass; every arena block must be handed back exactly once, no foreign pointer, no second release. STATELESS: streaming decoder, every cbor_encode_*, cbor_serialize and cbor_serialized_size make zero allocator requests and no libc heap call. HISTR/HISTX: the C04 histories under the tagging allocator (hidden header: foreign pointers and double releases are recognised; a header-carrying block handed to libc free is an ASan bad-free) and under the arena with hooks. Non-trivial = history with >=1 realloc and the release of a multi-block item, or an input with >=2 bytes; distinct by program / input.',
    assumptions=[COMMON_ASSUME[0], COMMON_ASSUME[2], '__sanitizer_install_malloc_and_free_hooks of the clang-14 ASan runtime reports every libc malloc/free; cbor_describe is exempt from the hook window because stdio may allocate (it is still run under the tagging allocator)'],
    level_text='Exploration: bypass detection is by construction (no libc backing + armed hooks), on every allocation site that the generated histories and inputs reach.',
    level_note='Allocation sites not reached by the generators are not covered; fault paths (release after a refused allocation) are covered by running C06 scenarios under the tagging allocator, not under the arena.')

def scalar_jobs(tier, seed):
    if tier == 'thorough':
        return [Job('drv_scalar', 'plain-O2', [], shards=NCPU, timeout=7200), Job('drv_scalar', 'asan', ['--tier', 'quick'], shards=NCPU, timeout=3600)]
    return [Job('drv_scalar', 'asan', [], shards=NCPU, timeout=3600)]

SPECS['C15'] = dict(
    jobs=scalar_jobs, level='exploration', technique='exhaustive / strided bit-pattern sweeps compared with an independent integer-arithmetic IEEE-754 conversion',
    rule='HALF: all 65536 half patterns (exhaustive, both tiers). SINGLE: all 2^32 patterns in the thorough tier (optimised build) / every 211th pattern plus every exponent x 12 boundary mantissas in the quick tier. DOUBLE: every exponent x 14 boundary mantissas x both signs, every single-bit NaN payload, seeded 64-bit patterns. ENCHALF: floats (all 2^32 thorough, strided + boundary quick) handed to cbor_encode_half. Oracle per pattern: the streaming decoder fires exactly the float callback of that width with the bit-exact IEEE value (NaN: any NaN); cbor_load records the width and stores the same bits; cbor_float_get_float widens exactly; cbor_serialize, cbor_encode_* (on the decoded value and on the original pattern) and a built item reproduce the original bytes, NaN as 7E00 / 7FC00000 / 7FF8000000000000; cbor_encode_half returns 3 bytes F9xxxx for every float (UBSan on), exact for half-representable values, 0 and untouched buffer when too small. Non-trivial = zero, subnormal, infinity, NaN or a mantissa within 2 ulp of a binade boundary; distinct by (width, pattern). The float encoders are also called with a really mapped buffer of 2^31-1 .. 2^32+9 bytes.',
    assumptions=[COMMON_ASSUME[0], 'the reference conversions (half<->single, single->double by integer bit manipulation in src/ref/refcbor.hpp and drv_scalar.cpp) are correct', COMMON_ASSUME[2]],
    level_text='Exploration: halves exhaustive in both tiers, singles exhaustive in the thorough tier, doubles on a dense boundary grid plus seeded patterns.',
    level_note='The thorough exhaustive single sweep runs on an optimised build without sanitizers; the sanitizer build covers the strided sweep.')

def scalar_jobs16(tier, seed):
    return scalar_jobs(tier, seed) + [rc_job('drv_scalar', 'asan', 'utf8', tier, 10000, 60, shards=4)]

SPECS['C16'] = dict(
    jobs=scalar_jobs16, level='exploration', technique='exhaustive short byte sequences + structured fault injection, compared with an independent RFC 3629 range-table validator',
    rule='UTF8: every byte sequence of length 0..3 (thorough 0..4). UTF8F: 1..6 scalars from every length class and boundary separated by ASCII runs of 0..40 bytes with one injected fault (stray continuation, C0/C1/F5..FF, overlong 2/3/4-byte, surrogate, > U+10FFFF, truncation, dropped continuation, ASCII run inside a multi-byte sequence, arbitrary byte) or none. Each sequence is attached with cbor_build_stringn (and copied), cbor_new_definite_string + cbor_string_set_handle (fresh item, and re-attached to an item that held valid text), cbor_build_string (NUL-free), and decoded by cbor_load with the shortest and the next wider head and as a chunk. Oracle: cbor_string_codepoint_count == scalar count if valid per the reference validator else 0; length and bytes unchanged; cbor_load never rejects because of content. Non-trivial = sequence containing a byte >= 0x80; distinct by bytes.',
    assumptions=[COMMON_ASSUME[0], 'the reference validator (range tables of RFC 3629 sect. 4 in src/ref/refcbor.hpp) is correct', COMMON_ASSUME[2]],
    level_text='Exploration: exhaustive over all sequences up to 3 (4) bytes, which covers every lead/continuation combination; longer strings by structured sampling.',
    level_note='Long strings are sampled; optimisations keyed to long aligned runs are targeted by the ASCII-run generator but not exhaustively.')

def arith_jobs(tier, seed):
    return [Job('drv_arith', 'asan', [], shards=NCPU, timeout=7200, fallback_binary='drv_arithp')]

SPECS['C20'] = dict(
    jobs=arith_jobs, level='exploration', technique='boundary-grid and seeded sweeps with a 128-bit oracle; exhaustive enumeration of the real guard source compiled at 8- and 16-bit size_t; end-to-end probes with a size-recording allocator',
    rule='GUARD: the five helpers of memory_utils.c on {2^i+d} x {2^j+e} (i,j in 0..64, |d|,|e|<=3) and seeded pairs of independently drawn bit lengths (biased to products straddling 2^64); NARROW: the same source file compiled with size_t narrowed to 8 and 16 bits, all 2^16 and 2^32 operand pairs (a case = one a, all b; counters.narrow_pairs counts pairs); a discrepancy there is only a candidate — it is scaled up to 64-bit operands and reported only if the real 64-bit function fails on them (a source need not be narrowable; counters.narrow_only_discrepancies counts the candidates that did not carry over); NEWC/HEAD: definite array/map creation and decoder heads with n near 2^56..2^64; GROWF: push / map_add / add_chunk at forged capacities 2^58..2^64-1; SSIZE: cbor_serialized_size over declared string lengths near 2^60..2^64-1 in 16 tree shapes. Oracle (soundness direction only): a guard never answers true when the exact result does not fit; a granted or attempted request is never smaller than n*s; growth never lowers capacity or asks for no more than it has; a computed size is the exact 128-bit total or 0, and serialize_alloc fails cleanly. Non-trivial = product within a factor 4 of 2^64 or sum above 2^63 (GUARD); every narrowed / end-to-end case.',
    assumptions=[COMMON_ASSUME[0], COMMON_ASSUME[2], 'the SMT proof the property text mentions is outside this family of technique; it is replaced by exhaustive checking of the same source at two narrowed widths plus the dense 64-bit grid (the guard is bit-length based, hence uniform in the width: an argument, not a proof)',
                 'forged capacities are set through the public struct exactly as test/array_test.c::test_array_push_overflow does, because no legitimate history reaches a 2^63-slot container'],
    level_text='Exploration: exhaustive at 8- and 16-bit size_t on the real source, dense boundary grid and seeded pairs at 64 bits, boundary probes end to end.',
    level_note='No proof over all 2^128 64-bit operand pairs is claimed. If the internal helper names disappear the check falls back to the end-to-end campaigns only and says so in the evidence notes.')

NEST_LIMITS = (1, 2, 3, 8, 64, 2048)
def nest_jobs(tier, seed):
    jobs = []
    for n in NEST_LIMITS:
        jobs.append(Job('drv_nest', 'L%d' % n, [], shards=2 if n < 2048 else 4, timeout=3600, label='L%d' % n))
        jobs.append(Job('drv_nest', 'P%d' % n, [], shards=2 if n < 2048 else 4, timeout=3600, label='P%d' % n))
    return jobs

SPECS['C19'] = dict(
    jobs=nest_jobs, level='exploration', technique='configuration sweep: library rebuilt for each limit L; generated nests at L-1..L+2 and 4L compared with the reference classifier parameterised by L; pipeline on a guard-paged bounded stack',
    rule='For each L in {1,2,3,8,64,2048} the library is rebuilt with -DCBOR_MAX_STACK_SIZE=L (ASan+DEBUG flavour for the verdict oracle, -O0 flavour for the stack bound). Inputs: nests from 10 opener kinds (tags, definite and indefinite arrays, maps in key and value position, wide heads, second array slot), homogeneous and seeded mixes, at depths L-1, L, L+1, L+2, 4L (and 1, L/2), innermost an integer / chunked byte or text string (counts as a level) / empty array / empty indefinite map; truncations of them; sibling-heavy inputs whose nesting stays within L; for L<=8 every E2/E2p encoding. Oracle: accepted iff the reference with limit L accepts, tree equal and read exact; when the limit decides, NULL with MEMERROR positioned just past the head that would open level L+1; in the -O0 flavour load, describe, size, serialize, copy and release run on a thread with 256 KiB + 4 KiB*L of stack whose guard page must never be touched. Non-trivial = deepest nesting in {L-1..L+1} or the limit changes the verdict; distinct by input. PAYLOAD: a byte string and a text string longer than the whole bounded stack, at the top level and three levels down (stack use must not follow payload size).',
    assumptions=[COMMON_ASSUME[1], COMMON_ASSUME[2], 'the stack allowance (256 KiB + 4 KiB per level) is about proportionality, not tightness: it is roughly ten times the per-level frame chain observed at -O0',
                 'limits other than the six listed are not built'],
    level_text='Exploration over six build configurations; per configuration the boundary depths are covered for every opener kind.',
    level_note='A per-level stack use between the real one and 4 KiB is not distinguished; only the six listed limits are exercised.')

def ro_jobs(tier, seed):
    return [Job('drv_ro', 'plain-O0', [], shards=NCPU, timeout=3600, label='mprotect -O0'),
            Job('drv_ro', 'plain-O2', [], shards=NCPU, timeout=3600, label='mprotect -O2'),
            Job('drv_ro', 'tsan', [], shards=NCPU, timeout=3600, label='tsan readers')]

SPECS['C18'] = dict(
    jobs=ro_jobs, level='exploration', technique='generated trees placed in a write-protected arena (mprotect) while every read-only operation runs on every node; concurrent readers under ThreadSanitizer',
    rule='Trees: cbor_load of every E2 (<=2 nodes quick / <=3 thorough) and E2p encoding; construction programs (all 1- and 2-byte programs, seeded longer ones) with tags, indefinite items, shared nodes, partially filled containers, chunked strings. Deterministic part, at -O0 and -O2 without sanitizers: the tree is built in arena 0 of an mmap arena allocator, arena 0 is mprotect(PROT_READ)ed, allocations are redirected to arena 1, then cbor_serialized_size (on every node), cbor_serialize (exact and too-small buffer), cbor_serialize_alloc, the typed cbor_serialize_* functions and every predicate / getter that hands out no reference (typeof, isa_*, is_*, refcount, widths, values, lengths, sizes, allocated, handles, chunk counts, codepoint count on definite and indefinite strings, ctrl value) run on every node; a SIGSEGV with an address inside arena 0 is a store into the tree, and the arena image is compared afterwards. Concurrent part: four threads run the same set three times on one shared tree under TSan. cbor_array_get, cbor_tag_item, cbor_copy and cbor_describe hand out references or are not named by the property and are not run. Non-trivial = tree with a tag, an indefinite item or a container; distinct by tree.',
    assumptions=[COMMON_ASSUME[2], 'mprotect faults on every store instruction into the arena, including transient ones that restore the old value', 'TSan (history_size=7) reports two unsynchronised writes / write+read to the same location by different reader threads'],
    level_text='Exploration: the write-protection oracle is deterministic per (tree, operation); trees are enumerated / sampled.',
    level_note='Operations are judged at -O0 and -O2 only; a store the optimiser removes at -O2 is still seen at -O0.')

def thread_jobs(tier, seed):
    return [Job('drv_threads', 'tsan', [], shards=96 if tier == 'thorough' else 48, timeout=3600)]

SPECS['C17'] = dict(
    jobs=thread_jobs, level='exploration', technique='randomised multi-threaded workloads under ThreadSanitizer with per-thread result digests compared against single-threaded runs; concurrent phase first in fresh processes',
    rule='Each case runs N in {2,3,4,8,16} threads released together by a barrier; every thread executes a seeded workload of 20..200 ops over the whole API on thread-private data (a fixed prelude touching every head kind, every float width, describe, the encoders; then cbor_load of well-formed and damaged inputs, construction programs, copy, serialize_alloc, fixed-buffer serialize, describe to a private memstream, streaming decode, low-level encoders, step-wise container growth, release). 48 (thorough 96) fresh processes, each starting with a concurrent phase before any single-threaded libcbor call so that first-use effects are contended; allocator configured once before threads start (C library malloc behind a stateless size cap / mutex-protected tracking allocator). Oracle: no ThreadSanitizer report (history_size=7, halt_on_error), and each thread digest (all bytes, codes, positions, describe text) equals the digest of the same workload run alone afterwards; the harness also interposes the libc functions that mutate process-wide state (setlocale with a locale argument, setenv/putenv/unsetenv, srand, chdir) and any call made while a workload runs is a violation. Non-trivial = >=2 threads each with >=10 allocating ops; distinct by (thread count, seed). Workloads also stream-decode prefixes cut at a seeded length (0 included) and decode / serialize / copy / release items nested 258..305 levels deep; construction programs include simple values 0..19 / 32..255.',
    assumptions=[COMMON_ASSUME[2], 'ThreadSanitizer reports a race whenever two conflicting accesses without a happens-before edge both occur in a run, independent of their order; the harness does not own the scheduler, so shared state protected by atomics or locks is only visible through the result digests',
                 'TSAN_OPTIONS=history_size=7: with the default history a planted static-counter race was dropped in 4 of 6 probe runs'],
    level_text='Exploration of schedules by repeated randomised runs; detection of hidden mutable globals does not depend on the interleaving, detection of semantic interference does.',
    level_note='Liveness and interleaving-specific failures that leave no race and no digest difference are out of reach of this technique.')
