"""Per-property check specifications: which binaries run, in which library flavour, and how
the evidence describes them."""
from .runner import Job, NCPU

COMMON_ASSUME = [
    'clang 14 AddressSanitizer/UBSan detect every out-of-bounds access, use-after-free and undefined operation that is executed',
    'the reference model (src/ref/refcbor.hpp, written from RFC 8949 sect. 3 / App. C plus the profile sentences of the property) is correct; it is itself exercised by the exhaustive short-string campaign',
    'x86-64 Linux, 64-bit size_t, IEEE-754 floats; library built through the repository CMakeLists with DEBUG assertions on',
]

def decode_jobs(flavour):
    def jobs(tier, seed):
        return [Job('drv_decode', flavour, [], shards=NCPU, timeout=5400)]
    return jobs

SPECS = {}
NOT_YET = {}

SPECS['C01'] = dict(
    jobs=decode_jobs('asan-strict'), level='exploration', technique='exhaustive small-scope enumeration + grammar enumeration + single-edit mutation under ASan/UBSan/assert',
    rule='Inputs: E1 every byte string of length <=3 (quick) / <=4 (thorough); E2 all grammar-enumerated well-formed encodings with <=3/4 nodes over the full head alphabet; E2p pairwise nesting; E3 every single-edit neighbour; BIG huge declared lengths and nesting at L-1..L+2. Each input sits in an exactly-sized heap block and goes through cbor_load, the streaming loop, and on success describe/size/serialize/serialize_alloc/copy/release. Oracle: no sanitizer report, assertion, signal or 20 s stall; item XOR error code; nothing left allocated. Non-trivial = input of >=2 bytes; the enumerators emit each case once per campaign (E3 cases are de-duplicated by hash).',
    assumptions=COMMON_ASSUME + ['termination is judged by a 20 s no-progress watchdog for inputs that normally take microseconds'],
    level_text='Exploration: exhaustive for all byte strings up to 3 (4) bytes and for the enumerated grammar/neighbour campaigns, a sample beyond; memory safety and assertions are judged by ASan/UBSan/DEBUG asserts on executed paths only.',
    level_note='Trusts clang-14 ASan/UBSan to flag executed memory errors / UB; a stall shorter than the 20 s watchdog is not seen; absence beyond the explored inputs is not established.')

SPECS['C02'] = dict(
    jobs=decode_jobs('asan'), level='exploration', technique='differential testing against an independent reference decoder over exhaustive/enumerated/mutated inputs',
    rule='Same input campaigns as C01. Oracle: cbor_load returns an item iff refcbor.classify accepts; on accept the tree observed through public getters equals the reference AST node by node (type, width, value, float bits with NaN==NaN, tag, flavour, chunk boundaries, order, fill), every refcount is 1, read == encoded length, no node or buffer lies in the input block, and the tree is unchanged after the input block is overwritten and freed. Non-trivial = >=2 complete heads, or a single-edit neighbour of an accepted item.',
    assumptions=COMMON_ASSUME + ['the harness allocator refuses single requests above its cap; the reference predicts refusal from the declared count and the public slot sizes sizeof(cbor_item_t*) / sizeof(struct cbor_pair); cases hitting the total cap are skipped and counted'],
    level_text='Exploration by differential testing: complete for every byte string up to 3 (4) bytes and every enumerated item / single-edit neighbour; elsewhere a sample. The reference decoder is independent of libcbor.',
    level_note='The reference model is trusted (validated by 0 disagreements on the exhaustive campaigns after the D1..D5 fixes); observation is through public getters only.')

SPECS['C05'] = dict(
    jobs=decode_jobs('asan'), level='exploration', technique='differential testing of (error code, position) against the reference classifier incl. all proper prefixes; two-pattern sentinel for unwritten fields',
    rule='Same input campaigns as C01; only inputs the reference rejects are judged. Oracle: NULL; (code, position) is in the reference admissible set (two members only for the documented late detection inside chunked strings); every proper prefix of an enumerated item (E3 truncations) gets NOTENOUGHDATA/NODATA, never a hard error; read/position/code all written (result pre-filled with 0xAA.. and 0x55..); no block left allocated. Non-trivial = rejected input with >=1 complete head.',
    assumptions=COMMON_ASSUME,
    level_text='Exploration by differential testing of the failure verdict: complete for every byte string up to 3 (4) bytes, all proper prefixes of all enumerated items and all single-edit corruptions; elsewhere a sample.',
    level_note='The reference classifier (DESIGN.md Appendix A) is trusted; where the property allows late detection the oracle admits both verdicts, so it cannot tell which of the two a change picks.')

SPECS['C14'] = dict(
    jobs=decode_jobs('asan'), level='exploration', technique='metamorphic relation load(x||y) == load(x) over enumerated x and y; sequence splitting',
    rule='PAIR: x = every E2 item (<=2 nodes quick, <=3 thorough) and every E2p item, decoded alone in an exactly |x|-byte block and again followed by y in {each of the 256 bytes, 14 small items, garbage, a 2^64-1 string head}; trees (observed via getters) and read must agree. SEQ: concatenations of 2..6 items split by repeated cbor_load at offset += read must give the same trees as the items alone and end exactly at the buffer end. Non-trivial = y non-empty and |x|>=2 (PAIR) / >=2 items (SEQ).',
    assumptions=COMMON_ASSUME[:1] + COMMON_ASSUME[2:],
    level_text='Exploration by a metamorphic relation (no reference model needed): complete over the enumerated x and the listed y; sequences are sampled.',
    level_note='x ranges over enumerated well-formed items only; y over single bytes, small items and a few garbage strings, not all strings.')

def stream_jobs(tier, seed):
    return [Job('drv_stream', 'asan', [], shards=NCPU, timeout=5400)]

STREAM_ASSUME = [COMMON_ASSUME[0], 'the reference tokeniser (src/ref/refcbor.hpp read_head/tokenise, written from RFC 8949 sect. 3 and the profile) is correct', COMMON_ASSUME[2]]

SPECS['C08'] = dict(
    jobs=stream_jobs, level='exploration', technique='exhaustive/boundary enumeration of heads x buffer lengths against a reference tokeniser, with a recording callback table',
    rule='HEAD campaign: every initial byte (256) x every buffer length 0..head length+1 x argument values (all one- and two-byte arguments exhaustively; boundary and seeded values for four/eight-byte ones incl. declared lengths up to 2^64-1); definite strings also with payload one short/exact/one extra. Oracle per call: FINISHED with exactly one callback (right slot, arguments, payload pointer = buffer+head, inside the buffer) and read = head(+payload) length; or NEDATA with no callback, read 0, n < required <= pending length (128-bit); or ERROR with no callback, read 0 for reserved/unsupported bytes; zero allocator calls; identical result when repeated and after unrelated calls; FINISHED independent of bytes beyond read (exact-size prefix, and flipped suffix). Non-trivial = buffer of >=1 byte whose head takes an argument or payload; distinct by buffer bytes.',
    assumptions=STREAM_ASSUME,
    level_text='Exploration: exhaustive per initial byte for immediate, one- and two-byte arguments; boundary grid plus seeded values for wider arguments.',
    level_note='Trusts the reference tokeniser; "allocates nothing" is observed through the installed allocator (libc bypass is the business of C13).')

SPECS['C09'] = dict(
    jobs=stream_jobs, level='exploration', technique='model-based testing of the buffering client loop: event sequence vs. independent tokenisation over generated (stream, fragmentation) pairs',
    rule='FRAG campaign: streams = concatenations of 1..4 enumerated items, raw sequences of 1..6 random heads, and specials (huge declared lengths, reserved bytes, truncated tails); fragmentations = one-shot, every single cut point, byte-at-a-time, 8 seeded multi-cut lists per stream. The client of the property statement is simulated (each call on an exactly-sized copy of the buffered bytes). Oracle: events equal the reference tokenisation (slot, arguments, payload bytes, order); every wait has buffered < required <= what the pending item occupies; progress on FINISHED; final state consistent with the tokenisation (all delivered / ERROR at the reserved byte / waiting on the incomplete tail). Non-trivial = some cut strictly inside a head or payload; distinct by (stream, cuts).',
    assumptions=STREAM_ASSUME,
    level_text='Exploration: all single cuts and byte-wise delivery of each generated stream, sampled multi-cut fragmentations; streams are sampled.',
    level_note='Trusts the reference tokeniser; the client loop is the one described in the property, implemented in the driver.')

SPECS['C10'] = dict(
    jobs=stream_jobs, level='exploration', technique='exhaustive small domains + boundary/seeded sweeps: encoder output vs. reference head, then round-trip through the streaming decoder',
    rule='ENC campaign over every cbor_encode_* function: all 8- and 16-bit values, all ctrl values except 24..31 (no RFC encoding), bool/null/undef/break/indefinite starts, every half pattern; 32/64-bit and width-agnostic encoders on 0..70000, all 2^k-1/2^k/2^k+1, width boundaries and seeded values of random bit length; single/double exponent x boundary mantissas + seeded. Oracle: bytes == RFC 8949 head from the reference (NaN canonical), return == length, bytes beyond untouched, decoder fires the matching slot with identical value and consumes exactly the bytes written (unsupported simple values must give ERROR; string heads are decoded with and without payload). Non-trivial = head longer than one byte; distinct by (encoder, value).',
    assumptions=STREAM_ASSUME,
    level_text='Exploration: exhaustive for 8/16-bit domains, constants and all half patterns; boundary + seeded elsewhere.',
    level_note='cbor_encode_half is judged only on NaN and half-representable floats (its documented domain for exactness; totality on other floats is C15).')

def tree_jobs(tier, seed):
    return [Job('drv_tree', 'asan', [], shards=NCPU, timeout=5400)]

TREE_ASSUME = [COMMON_ASSUME[0], 'the reference encoder (src/ref/refcbor.hpp encode, written from RFC 8949 and the rules stated in C03) is correct', COMMON_ASSUME[2],
               'UBSan nonnull-attribute is disabled in this flavour: memcpy(dst, NULL, 0) on handle-less definite strings is outside every listed property']

SPECS['C03'] = dict(
    jobs=tree_jobs, level='exploration', technique='round-trip + differential against a reference encoder over decoder-made and API-constructed trees (enumerated and seeded construction programs)',
    rule='Trees: DEC = cbor_load of every E2 (<=2 nodes quick / <=3 thorough) and E2p encoding; PROG = byte-coded construction programs through every cbor_new_*/cbor_build_* (all 1- and 2-byte programs exhaustively, seeded programs of 2..49 bytes); DEEP = API-built nests up to the decoder limit. Oracle: the tree observed through getters equals what the construction calls are documented to build; cbor_serialize_alloc bytes == reference RFC 8949 encoding of the observed tree (stored widths, shortest heads, break-terminated indefinites, canonical NaN); cbor_load of those bytes consumes all of them and gives an equal tree (NaN==NaN); serializing that tree gives the identical bytes; nothing left allocated. Non-trivial = >=3 nodes, or an indefinite item / NaN / width-boundary value / shared node; distinct by construction program or input bytes.',
    assumptions=TREE_ASSUME,
    level_text='Exploration: exhaustive over the enumerated encodings and all 1- and 2-byte construction programs; seeded sample of longer programs.',
    level_note='Trusts the reference encoder; API-built trees are limited to what treeprog.hpp can express (no cycles, no unset ints/floats, simple values 20..23 only — the preconditions stated in the property).')

SPECS['C07'] = dict(
    jobs=tree_jobs, level='exploration', technique='exhaustive buffer-size sweep (n = 0..size+2, exact heap blocks with sentinel fill under ASan) over generated trees; encoder x value x n sweep',
    rule='For every tree of the C03 campaigns: every n in 0..size+2 with an exactly n-byte heap block filled with 0xC5: cbor_serialize returns cbor_serialized_size iff n >= size else 0, bytes [size,n) stay 0xC5, ASan guards everything past n; cbor_serialize_alloc returns size, sets *buffer_size = size (or accepts NULL), the block it obtained is exactly size bytes and holds the same bytes. ENCN: every cbor_encode_* x boundary/seeded values x n in 0..10: returns 0 with the buffer untouched, or the head length with only those bytes written and equal to the reference head. Cases are trees (each sweeps all n; counters.tree_n_pairs is the number of (tree,n) pairs) and (encoder,value) pairs. Non-trivial = tree with >=2 nodes, an indefinite item or size >= 3.',
    assumptions=TREE_ASSUME,
    level_text='Exploration: for each generated tree the buffer-size dimension is exhaustive; trees and encoder values are enumerated/sampled as in C03.',
    level_note='Writes outside the first n bytes are detected by ASan red zones of the exactly-sized block.')

SPECS['C11'] = dict(
    jobs=tree_jobs, level='exploration', technique='metamorphic/invariant checks on cbor_copy over generated trees: byte-image snapshot of the source, address-set disjointness, mutate/release one side and re-check the other under ASan',
    rule='Trees of the C03 campaigns (incl. shared sub-items, empty containers, zero-chunk indefinite strings, 64-bit values, partially filled definite containers), each in two variants (mutate-then-release the copy / the source). Oracle: copy serializes to the same bytes and has the same observed shape; every copy node has refcount 1 and appears once; node and buffer address ranges of copy and source are disjoint; the byte image of every source block is unchanged by cbor_copy; after mutating every int/string byte/float and pushing to every indefinite array of one tree the other still serializes identically; after releasing one tree the other is intact (ASan) and nothing is left allocated at the end. Non-trivial = tree with a container and a string or a shared node.',
    assumptions=TREE_ASSUME,
    level_text='Exploration over enumerated and seeded trees; independence is checked by actual mutation and release, not only by address comparison.',
    level_note='Source integrity is judged on the byte image of allocator blocks, i.e. without knowledge of the struct layout.')
