"""Per-property check specifications: which binaries run, in which library flavour, and how
the evidence describes them."""
from .runner import Job, NCPU

COMMON_ASSUME = [
    'clang 14 AddressSanitizer/UBSan detect every out-of-bounds access, use-after-free and undefined operation that is executed',
    'the reference model (src/ref/refcbor.hpp, written from RFC 8949 sect. 3 / App. C plus the profile sentences of the property) is correct; it is itself exercised by the exhaustive short-string campaign',
    'x86-64 Linux, 64-bit size_t, IEEE-754 floats; library built through the repository CMakeLists with DEBUG assertions on',
]

def decode_jobs(flavour):
    def jobs(tier, seed):
        return [Job('drv_decode', flavour, [], shards=NCPU, timeout=5400)]
    return jobs

SPECS = {}
NOT_YET = {}

SPECS['C01'] = dict(
    jobs=decode_jobs('asan-strict'), level='exploration', technique='exhaustive small-scope enumeration + grammar enumeration + single-edit mutation under ASan/UBSan/assert',
    rule='Inputs: E1 every byte string of length <=3 (quick) / <=4 (thorough); E2 all grammar-enumerated well-formed encodings with <=3/4 nodes over the full head alphabet; E2p pairwise nesting; E3 every single-edit neighbour; BIG huge declared lengths and nesting at L-1..L+2. Each input sits in an exactly-sized heap block and goes through cbor_load, the streaming loop, and on success describe/size/serialize/serialize_alloc/copy/release. Oracle: no sanitizer report, assertion, signal or 20 s stall; item XOR error code; nothing left allocated. Non-trivial = input of >=2 bytes; the enumerators emit each case once per campaign (E3 cases are de-duplicated by hash).',
    assumptions=COMMON_ASSUME + ['termination is judged by a 20 s no-progress watchdog for inputs that normally take microseconds'],
    level_text='Exploration: exhaustive for all byte strings up to 3 (4) bytes and for the enumerated grammar/neighbour campaigns, a sample beyond; memory safety and assertions are judged by ASan/UBSan/DEBUG asserts on executed paths only.',
    level_note='Trusts clang-14 ASan/UBSan to flag executed memory errors / UB; a stall shorter than the 20 s watchdog is not seen; absence beyond the explored inputs is not established.')

SPECS['C02'] = dict(
    jobs=decode_jobs('asan'), level='exploration', technique='differential testing against an independent reference decoder over exhaustive/enumerated/mutated inputs',
    rule='Same input campaigns as C01. Oracle: cbor_load returns an item iff refcbor.classify accepts; on accept the tree observed through public getters equals the reference AST node by node (type, width, value, float bits with NaN==NaN, tag, flavour, chunk boundaries, order, fill), every refcount is 1, read == encoded length, no node or buffer lies in the input block, and the tree is unchanged after the input block is overwritten and freed. Non-trivial = >=2 complete heads, or a single-edit neighbour of an accepted item.',
    assumptions=COMMON_ASSUME + ['the harness allocator refuses single requests above its cap; the reference predicts refusal from the declared count and the public slot sizes sizeof(cbor_item_t*) / sizeof(struct cbor_pair); cases hitting the total cap are skipped and counted'],
    level_text='Exploration by differential testing: complete for every byte string up to 3 (4) bytes and every enumerated item / single-edit neighbour; elsewhere a sample. The reference decoder is independent of libcbor.',
    level_note='The reference model is trusted (validated by 0 disagreements on the exhaustive campaigns after the D1..D5 fixes); observation is through public getters only.')

SPECS['C05'] = dict(
    jobs=decode_jobs('asan'), level='exploration', technique='differential testing of (error code, position) against the reference classifier incl. all proper prefixes; two-pattern sentinel for unwritten fields',
    rule='Same input campaigns as C01; only inputs the reference rejects are judged. Oracle: NULL; (code, position) is in the reference admissible set (two members only for the documented late detection inside chunked strings); every proper prefix of an enumerated item (E3 truncations) gets NOTENOUGHDATA/NODATA, never a hard error; read/position/code all written (result pre-filled with 0xAA.. and 0x55..); no block left allocated. Non-trivial = rejected input with >=1 complete head.',
    assumptions=COMMON_ASSUME,
    level_text='Exploration by differential testing of the failure verdict: complete for every byte string up to 3 (4) bytes, all proper prefixes of all enumerated items and all single-edit corruptions; elsewhere a sample.',
    level_note='The reference classifier (DESIGN.md Appendix A) is trusted; where the property allows late detection the oracle admits both verdicts, so it cannot tell which of the two a change picks.')

SPECS['C14'] = dict(
    jobs=decode_jobs('asan'), level='exploration', technique='metamorphic relation load(x||y) == load(x) over enumerated x and y; sequence splitting',
    rule='PAIR: x = every E2 item (<=2 nodes quick, <=3 thorough) and every E2p item, decoded alone in an exactly |x|-byte block and again followed by y in {each of the 256 bytes, 14 small items, garbage, a 2^64-1 string head}; trees (observed via getters) and read must agree. SEQ: concatenations of 2..6 items split by repeated cbor_load at offset += read must give the same trees as the items alone and end exactly at the buffer end. Non-trivial = y non-empty and |x|>=2 (PAIR) / >=2 items (SEQ).',
    assumptions=COMMON_ASSUME[:1] + COMMON_ASSUME[2:],
    level_text='Exploration by a metamorphic relation (no reference model needed): complete over the enumerated x and the listed y; sequences are sampled.',
    level_note='x ranges over enumerated well-formed items only; y over single bytes, small items and a few garbage strings, not all strings.')
