"""Runner: build, shard, run, capture crashes from the journal, confirm by replay, write evidence."""
import array, glob, hashlib, json, os, shutil, struct, subprocess, sys, time

from . import vbuild

VERIF = vbuild.VERIF
NCPU = min(16, os.cpu_count() or 1)
REPLAYS = os.environ.get('VERIF_REPLAYS', os.path.join(VERIF, 'replays'))
EVIDENCE = os.environ.get('VERIF_EVIDENCE', os.path.join(VERIF, 'evidence'))
JHDR = struct.Struct('<II24s4QQ')   # magic, datalen, campaign, aux[4], seq


def san_env(kind):
    env = dict(os.environ)
    env['ASAN_OPTIONS'] = 'abort_on_error=1:detect_leaks=0:allocator_may_return_null=1:handle_abort=0:symbolize=1:detect_stack_use_after_return=0'
    env['UBSAN_OPTIONS'] = 'print_stacktrace=1:halt_on_error=1:abort_on_error=1'
    env['TSAN_OPTIONS'] = 'history_size=7:halt_on_error=1:abort_on_error=1:second_deadlock_stack=1'
    return env


def read_journal(path):
    try:
        with open(path, 'rb') as f:
            raw = f.read()
    except OSError:
        return None
    if len(raw) < JHDR.size:
        return None
    magic, dlen, camp, a0, a1, a2, a3, seq = JHDR.unpack_from(raw, 0)
    if magic != 0x564A3031:
        return None
    return {'campaign': camp.split(b'\0')[0].decode('latin1'), 'aux': [a0, a1, a2, a3],
            'data': raw[JHDR.size:JHDR.size + dlen], 'seq': seq}


def write_case(path, prop, driver, case, note):
    with open(path, 'w') as f:
        f.write('property: %s\ndriver: %s\ncampaign: %s\naux: %d %d %d %d\ndata: %s\nnote: %s\n' % (
            prop, driver, case['campaign'], *case['aux'], case['data'].hex(), note.replace('\n', ' ')))


def read_case(path):
    c = {}
    with open(path) as f:
        for line in f:
            k, _, v = line.rstrip('\n').partition(': ')
            c[k] = v
    return c


def case_key(path):
    c = read_case(path)
    h = hashlib.sha1(('%s|%s|%s' % (c.get('campaign', ''), c.get('aux', ''), c.get('data', ''))).encode()).hexdigest()[:16]
    return h


class Job:
    def __init__(self, binary, flavour, args=(), shards=NCPU, label=None, timeout=3600, kind='driver', replay_bin=None, replay_campaign=None, fallback_binary=None, rc=None, shrink_unit=1, replay_flavour=None, fuzz_time=20, max_len=512, corpus=None):
        self.binary, self.flavour, self.args, self.shards = binary, flavour, list(args), shards
        self.label = label or binary
        self.timeout = timeout
        self.kind = kind            # 'driver' | 'fuzz'
        self.replay_bin = replay_bin or binary
        self.replay_campaign = replay_campaign
        self.fallback_binary = fallback_binary
        self.rc = rc                    # (max_success, max_size) for a rapidcheck front-end job
        self.replay_flavour = replay_flavour or flavour
        self.fuzz_time, self.max_len, self.corpus = fuzz_time, max_len, corpus
        self.shrink_unit = shrink_unit  # granularity of delta debugging on the case data


def load_known(prop):
    known, fixed = [], []
    p = os.path.join(VERIF, 'known-findings.txt')
    if os.path.exists(p):
        for line in open(p):
            line = line.strip()
            if line.startswith('known:') and ('property=%s ' % prop) in line:
                kv = dict(t.split('=', 1) for t in line[6:].split() if '=' in t)
                known.append((kv.get('key', ''), line[6:].strip()))
            elif line.startswith('fixed:') and ('property=%s ' % prop) in line:
                fixed.append(line)
    return known, fixed


def merge_hashfiles(files):
    """size of the union of the per-shard sorted hash files (k-way merge in tools/uniq64)"""
    tool = os.path.join(vbuild.BUILD, 'uniq64')
    src = os.path.join(VERIF, 'tools', 'uniq64.cpp')
    if not os.path.exists(tool) or os.path.getmtime(tool) < os.path.getmtime(src):
        os.makedirs(vbuild.BUILD, exist_ok=True)
        subprocess.check_call(['clang++', '-O2', '-o', tool, src])
    return int(subprocess.check_output([tool] + files).split()[0])


def shrink_case(path, j, prop, budget=160, repeat=False):
    """Delta debugging (ddmin) on the data bytes of a failing case, then byte simplification; every
    candidate is judged by replaying it through the driver.  Returns the path of the minimal case."""
    c = read_case(path)
    data = bytes.fromhex(c.get('data', ''))
    if len(data) <= j.shrink_unit or c.get('note', '').startswith('(shrunk by rapidcheck)'):
        return path
    tmp = path + '.try'
    calls = [0]
    before_line = ('before: %s\n' % c['before']) if 'before' in c else ''

    env = san_env(j.replay_flavour)
    if not repeat:
        env = dict(env, VERIF_REPLAY_REPEAT='1')   # the failure reproduces at once: candidates are judged by one run each
    deadline = time.time() + 240   # a candidate that passes is repeated by the driver for up to 15 s (history-dependent failures)

    def fails(d):
        if calls[0] >= budget or time.time() > deadline:
            return False
        calls[0] += 1
        with open(tmp, 'w') as f:
            f.write('property: %s\ndriver: %s\ncampaign: %s\naux: %s\ndata: %s\n%snote: shrinking candidate\n' % (prop, c.get('driver', ''), c.get('campaign', ''), c.get('aux', '0 0 0 0'), d.hex(), before_line))
        try:
            r = subprocess.run([vbuild.binpath(j.replay_flavour, j.replay_bin), '--prop', prop, '--replay', tmp], stdout=subprocess.PIPE, stderr=subprocess.STDOUT, env=env, cwd=VERIF, timeout=120)
            return r.returncode != 0
        except subprocess.TimeoutExpired:
            return False

    u = j.shrink_unit
    n = 2
    while len(data) > u and calls[0] < budget:
        units = len(data) // u
        chunk = max(1, units // n)
        removed = False
        i = 0
        while i < units and calls[0] < budget:
            cand = data[:i * u] + data[(i + chunk) * u:]
            if cand != data and fails(cand):
                data = cand; units = len(data) // u; removed = True; n = max(n - 1, 2)
            else:
                i += chunk
        if not removed:
            if chunk == 1:
                break
            n = min(n * 2, units)
    for i in range(len(data)):
        if calls[0] >= budget:
            break
        if data[i] != 0 and i % u != 0:
            cand = data[:i] + b'\x00' + data[i + 1:]
            if fails(cand):
                data = cand
    try:
        os.remove(tmp)
    except OSError:
        pass
    if data.hex() == c.get('data', ''):
        return path
    out = path[:-5] + '.min.case' if path.endswith('.case') else path + '.min'
    with open(out, 'w') as f:
        f.write('property: %s\ndriver: %s\ncampaign: %s\naux: %s\ndata: %s\n%snote: (shrunk by delta debugging from %s, %d replays) %s\n' % (
            prop, c.get('driver', ''), c.get('campaign', ''), c.get('aux', '0 0 0 0'), data.hex(), before_line, os.path.basename(path), calls[0], c.get('note', '')))
    return out


def run_property(prop, spec, tier, seed, replay=None):
    """spec: dict with keys jobs(tier, seed) -> [Job], level, rule, assumptions, technique"""
    t0 = time.time()
    os.makedirs(EVIDENCE, exist_ok=True)
    os.makedirs(REPLAYS, exist_ok=True)
    jobs = spec['jobs'](tier, seed)
    targets = {}
    for j in jobs:
        for fl, b in ((j.flavour, j.binary), (j.replay_flavour, j.replay_bin)):
            targets.setdefault(fl, [])
            if b not in targets[fl]:
                targets[fl].append(b)
    try:
        try:
            bt = vbuild.build(targets)
        except vbuild.BuildError:
            # a job may name a fallback binary that needs less of the library's internals
            if not any(j.fallback_binary for j in jobs):
                raise
            targets = {}
            for j in jobs:
                if j.fallback_binary:
                    j.binary = j.replay_bin = j.fallback_binary
                targets.setdefault(j.flavour, [])
                if j.binary not in targets[j.flavour]:
                    targets[j.flavour].append(j.binary)
            bt = vbuild.build(targets)
    except vbuild.BuildError as e:
        # the tree under test does not build with our flavours: nothing was explored
        print('BUILD-FAILED for property %s:\n%s' % (prop, e))
        return 2

    if replay:
        j = jobs[0]
        for jj in jobs:
            if os.path.basename(jj.replay_bin) == read_case(replay).get('driver', ''):
                j = jj
        rc = subprocess.run([vbuild.binpath(j.replay_flavour, j.replay_bin), '--prop', prop, '--replay', replay], env=san_env(j.replay_flavour)).returncode
        if rc != 0:
            print('VIOLATION property=%s replay=%s' % (prop, replay))
            return 1
        return 0

    work = os.path.join(vbuild.BUILD, 'run-%s-%d' % (prop, os.getpid()))
    shutil.rmtree(work, ignore_errors=True)
    os.makedirs(work)
    procs = []
    for ji, j in enumerate(jobs):
        for s in range(j.shards):
            tag = '%d-%d' % (ji, s)
            cmd = [vbuild.binpath(j.flavour, j.binary)]
            if j.kind == 'driver':
                cmd += ['--prop', prop, '--tier', tier, '--seed', str(seed), '--shard', '%d/%d' % (s, j.shards),
                        '--out', os.path.join(work, 'stats-%s.json' % tag), '--journal', os.path.join(work, 'journal-%s' % tag),
                        '--faildir', REPLAYS, '--hashfile', os.path.join(work, 'hash-%s.bin' % tag)] + j.args
            else:
                from . import fuzzjob
                cmd = fuzzjob.command(j, work, tag, s, seed)
            procs.append({'job': j, 'shard': s, 'tag': tag, 'cmd': cmd})
    # run with at most NCPU concurrent processes
    pending, running = list(procs), []
    while pending or running:
        while pending and len(running) < NCPU:
            p = pending.pop(0)
            env = san_env(p['job'].flavour)
            env['VERIF_SHARD'] = str(p['shard']); env['VERIF_SEED'] = str(seed); env['VERIF_TIER'] = tier
            env['VERIF_PROP'] = prop
            env['VERIF_WORK'] = work; env['VERIF_TAG'] = p['tag']; env['VERIF_REPLAYS'] = REPLAYS
            if p['job'].rc:
                env['RC_PARAMS'] = 'seed=%d max_success=%d max_size=%d' % (seed * 1000 + p['shard'] + 1, p['job'].rc[0], p['job'].rc[1])
            p['log'] = open(os.path.join(work, 'log-%s.txt' % p['tag']), 'w')
            p['t0'] = time.time()
            p['popen'] = subprocess.Popen(p['cmd'], stdout=p['log'], stderr=subprocess.STDOUT, env=env, cwd=VERIF)
            running.append(p)
        time.sleep(0.05)
        for p in list(running):
            rc = p['popen'].poll()
            if rc is None:
                if time.time() - p['t0'] > p['job'].timeout:
                    p['popen'].kill(); p['timed_out'] = True
                continue
            p['rc'] = rc; p['log'].close(); running.remove(p)

    # collect
    agg = {'evaluations': 0, 'nt_counted': 0, 'skipped': 0, 'classes': {}, 'campaigns': {}, 'notes': {}, 'counters': {}, 'samples': [], 'inconclusive': False}
    failures = []   # (case path, how, job)
    hashfiles = []
    for p in procs:
        j = p['job']
        if j.kind == 'fuzz':
            from . import fuzzjob
            hf = fuzzjob.collect(p, work, prop, agg, failures, write_case)
            if hf:
                hashfiles.append(hf)
            continue
        sp = os.path.join(work, 'stats-%s.json' % p['tag'])
        st = None
        if os.path.exists(sp):
            try:
                st = json.load(open(sp))
            except ValueError:
                st = None
        if st:
            agg['evaluations'] += st['evaluations']; agg['nt_counted'] += st['nontrivial_counted']; agg['skipped'] += st['skipped']
            agg['inconclusive'] |= st['inconclusive']
            for k, v in st['classes'].items():
                agg['classes'][k] = agg['classes'].get(k, 0) + v
            for k, v in st['campaigns'].items():
                c = agg['campaigns'].setdefault(k, {'evaluations': 0, 'exhaustive': True, 'shards': 0})
                c['evaluations'] += v['evaluations']; c['exhaustive'] &= v['exhaustive']; c['shards'] += 1
            agg['notes'].update(st['notes'])
            for k, v in st.get('counters', {}).items():
                agg['counters'][k] = agg['counters'].get(k, 0) + v
            for s in st['samples']:
                camp = s.split(' ', 1)[0]
                if sum(1 for x in agg['samples'] if x.split(' ', 1)[0] == camp) < 4 and len(agg['samples']) < 40:
                    agg['samples'].append(s)
            for f in st['failures']:
                failures.append((f, 'oracle', j))
            hf = os.path.join(work, 'hash-%s.bin' % p['tag'])
            if os.path.exists(hf):
                hashfiles.append(hf)
        if p.get('timed_out'):
            agg['inconclusive'] = True
            agg['notes']['timeout-' + p['tag']] = 'shard stopped at the runner time limit (inconclusive, not a violation)'
        elif p['rc'] not in (0, 1) or (p['rc'] == 1 and not st):
            # died: sanitizer report, assert, signal, watchdog
            jr = read_journal(os.path.join(work, 'journal-%s' % p['tag']))
            logtail = open(os.path.join(work, 'log-%s.txt' % p['tag']), errors='replace').read()[-20000:]
            if jr is None:
                agg['notes']['crash-' + p['tag']] = 'process died (rc=%s) outside any case: %s' % (p['rc'], logtail[-500:])
                failures.append((None, 'crash-outside-case rc=%s: %s' % (p['rc'], logtail[-800:]), j))
            else:
                h = hashlib.sha1(jr['data'] + jr['campaign'].encode() + repr(jr['aux']).encode()).hexdigest()[:16]
                path = os.path.join(REPLAYS, '%s-crash-%s.case' % (prop, h))
                first = ''
                for line in logtail.splitlines():
                    if 'ERROR:' in line or 'runtime error' in line or 'Assertion' in line or 'WATCHDOG' in line or 'WARNING: ThreadSanitizer' in line:
                        first = line.strip(); break
                write_case(path, prop, j.replay_bin, jr, 'process died rc=%s: %s' % (p['rc'], first))
                failures.append((path, 'crash', j))

    distinct_nt = agg['nt_counted'] + (merge_hashfiles(hashfiles) if hashfiles else 0)

    # confirm failures by replay, match against known findings
    def _size(f):
        try:
            return len(read_case(f[0]).get('data', '')) if f[0] else 0
        except OSError:
            return 1 << 30
    failures.sort(key=_size)
    known, fixed = load_known(prop)
    violations, known_hits, unconfirmed = [], [], []
    not_replayed = 0
    seen = set()
    for path, how, j in failures:
        if path is None:
            violations.append((None, how)); continue
        if path in seen:
            continue
        seen.add(path)
        if len(violations) >= 3 or len(unconfirmed) >= 12:
            not_replayed += 1; continue     # enough reproductions to report / enough that did not reproduce
        confirmed = 0
        needs_rep = False
        for attempt in range(3):
            env = san_env(j.replay_flavour)
            if attempt:   # only the first replay repeats a passing case (history-dependent failures, <= 15 s)
                env = dict(env, VERIF_REPLAY_REPEAT='1')
            try:
                r = subprocess.run([vbuild.binpath(j.replay_flavour, j.replay_bin), '--prop', prop, '--replay', path],
                                   stdout=subprocess.PIPE, stderr=subprocess.STDOUT, env=env, cwd=VERIF, timeout=150)
                if r.returncode != 0:
                    confirmed += 1
                    needs_rep = needs_rep or b'(repetition ' in r.stdout
            except subprocess.TimeoutExpired:
                confirmed += 1   # a replay that does not return reproduces a hang
            if confirmed:
                break
        if confirmed == 0:
            unconfirmed.append(path); continue
        key = case_key(path)
        hit = [k for k in known if k[0] == key]
        if hit:
            known_hits.append((path, hit[0][1]))
        else:
            if len(violations) < 2:
                path = shrink_case(path, j, prop, repeat=needs_rep)   # minimal reproduction becomes the replay file
            violations.append((path, how))

    wall = time.time() - t0
    extra = []
    rcs = sorted({j.args[1] for j in jobs if j.rc})
    if rcs:
        extra.append('rapidcheck generator(s) %s (src/gen/rc_cases.cpp; RC_PARAMS seed derived from VERIF_SEED; failures shrunk by rapidcheck)' % ', '.join(rcs))
    fz = sorted({j.binary for j in jobs if j.kind == 'fuzz'})
    if fz:
        extra.append('libFuzzer target(s) %s with this oracle inside the target (16 instances, half seeded from corpus/, half from an empty corpus)' % ', '.join(fz))
    rule = spec['rule'] + (' The same oracle is also driven by ' + ' and by '.join(extra) + '; their non-trivial cases are counted by 64-bit case hash, merged across processes.' if extra else '')
    cov = {
        'evaluations': agg['evaluations'], 'distinct_nontrivial': distinct_nt, 'rule': rule,
        'samples': agg['samples'] or ['(no non-trivial sample recorded)'],
        'campaigns': agg['campaigns'], 'classes': agg['classes'], 'skipped_outside_domain': agg['skipped'],
        'notes': agg['notes'], 'counters': agg['counters'], 'inconclusive_remainder': agg['inconclusive'],
        'exhaustive': bool(agg['campaigns']) and all(c['exhaustive'] for c in agg['campaigns'].values()) and not agg['inconclusive'],
        'exhaustive_campaigns': sorted(k for k, c in agg['campaigns'].items() if c['exhaustive']),
        'build_s': round(bt, 2), 'unconfirmed_failures': unconfirmed, 'failures_not_replayed': not_replayed,
        'known_findings_matched': [k[1] for k in known_hits],
        'violating_cases': [v[0] or v[1] for v in violations],
    }
    ev = {'property_id': prop, 'tier': tier, 'seed': seed, 'level': spec['level'], 'coverage': cov,
          'assumptions': spec['assumptions'], 'wall_s': round(wall, 2), 'violations': len(violations)}
    with open(os.path.join(EVIDENCE, prop + '.json'), 'w') as f:
        json.dump(ev, f, indent=1)
    print('%s %s seed=%d: %d cases, %d distinct non-trivial, %d skipped, %.1fs (build %.1fs)%s' % (
        prop, tier, seed, agg['evaluations'], distinct_nt, agg['skipped'], wall, bt, '  [partly inconclusive]' if agg['inconclusive'] else ''))
    for path, what in known_hits:
        print('KNOWN-FINDING: property=%s %s' % (prop, what))
    for u in unconfirmed:
        print('note: failure %s did not reproduce in 3 replays; not reported' % u)
    for path, how in violations:
        if path:
            note = read_case(path).get('note', '')
            print('VIOLATION property=%s replay=%s' % (prop, path))
            print('  (%s) %s' % (how, note[:400]))
        else:
            print('VIOLATION property=%s replay=none' % prop)
            print('  ' + how[:600])
    if not violations:
        shutil.rmtree(work, ignore_errors=True)
    else:   # keep the logs of a failing run, drop the bulky parts
        for d in glob.glob(os.path.join(work, 'corpus-*')):
            shutil.rmtree(d, ignore_errors=True)
        for f in glob.glob(os.path.join(work, 'hash-*.bin')) + glob.glob(os.path.join(work, 'journal-*')):
            try:
                os.remove(f)
            except OSError:
                pass
    return 1 if violations else 0
