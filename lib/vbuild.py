"""Build libcbor flavours from the repository's *current working tree* through its own CMake,
and the harness binaries against them.  Everything lands under /verif/build (untracked)."""
import fcntl, hashlib, os, shutil, subprocess, sys, time

VERIF = os.path.dirname(os.path.dirname(os.path.abspath(__file__)))
REPO = os.environ.get('VERIF_REPO', '/repo')
_tag = '' if REPO == '/repo' else '-' + hashlib.sha1(REPO.encode()).hexdigest()[:8]
BUILD = os.path.join(VERIF, 'build' + _tag)

COMMON = '-g -fno-omit-frame-pointer -DPJK_LIBCBOR_VERIF'
ASAN = '-O1 -DDEBUG=true -fsanitize=address,undefined -fno-sanitize-recover=undefined'
FLAVOURS = {
    # name: (C flags, extra cmake args, harness sanitizer kind)
    'asan':        (ASAN + ' -fno-sanitize=nonnull-attribute', [], 'asan'),
    'asan-strict': (ASAN, [], 'asan-strict'),
    'fuzz':        (ASAN + ' -fno-sanitize=nonnull-attribute -fsanitize=fuzzer-no-link', [], 'fuzz'),
    'tsan':        ('-O1 -DDEBUG=true -fsanitize=thread', [], 'tsan'),
    'plain-O0':    ('-O0', [], 'plain-O0'),
    'plain-O2':    ('-O2 -DNDEBUG', [], 'plain-O2'),
}
for _n in (1, 2, 3, 8, 64, 2048):
    FLAVOURS['L%d' % _n] = (ASAN + ' -fno-sanitize=nonnull-attribute', ['-DCBOR_MAX_STACK_SIZE=%d' % _n], 'asan')
    FLAVOURS['P%d' % _n] = ('-O0', ['-DCBOR_MAX_STACK_SIZE=%d' % _n], 'plain-O0')


def san_of(flavour):
    return FLAVOURS[flavour][2]


class BuildError(Exception):
    pass


def _run(cmd, log, **kw):
    p = subprocess.run(cmd, stdout=subprocess.PIPE, stderr=subprocess.STDOUT, text=True, **kw)
    log.append('$ ' + ' '.join(cmd) + '\n' + p.stdout)
    if p.returncode != 0:
        raise BuildError('command failed: %s\n%s' % (' '.join(cmd), p.stdout[-4000:]))
    return p.stdout


def build_flavour(flavour, log):
    cflags, extra, _ = FLAVOURS[flavour]
    d = os.path.join(BUILD, 'lib-' + flavour)
    stamp = os.path.join(d, '.verif-flags')
    want = COMMON + ' ' + cflags + ' ' + ' '.join(extra) + ' ' + REPO
    if os.path.isdir(d) and (not os.path.exists(stamp) or open(stamp).read() != want):
        shutil.rmtree(d)
    os.makedirs(d, exist_ok=True)
    if not os.path.exists(os.path.join(d, 'build.ninja')):
        open(stamp, 'w').write(want)
        _run(['cmake', '-S', REPO, '-B', d, '-G', 'Ninja', '-DCMAKE_C_COMPILER=clang', '-DCMAKE_CXX_COMPILER=clang++',
              '-DCMAKE_BUILD_TYPE=None', '-DSANITIZE=OFF', '-DWITH_TESTS=OFF', '-DWITH_EXAMPLES=OFF',
              '-DCMAKE_INTERPROCEDURAL_OPTIMIZATION=OFF', '-DCMAKE_C_FLAGS=' + COMMON + ' ' + cflags] + extra, log)
    _run(['ninja', '-C', d, 'cbor'], log)
    return d


def build(flavour_targets, jobs=16):
    """flavour_targets: {flavour: [binary names]}.  Serialised across concurrent checks by a lock."""
    os.makedirs(BUILD, exist_ok=True)
    log = []
    t0 = time.time()
    with open(os.path.join(BUILD, '.lock'), 'w') as lk:
        fcntl.flock(lk, fcntl.LOCK_EX)
        for fl, targets in flavour_targets.items():
            build_flavour(fl, log)
            if targets:
                bins = [os.path.join(BUILD, 'bin-' + fl, t) for t in targets]
                _run(['make', '-s', '-j%d' % jobs, '-C', VERIF, 'FL=' + fl, 'SAN=' + san_of(fl), 'BUILD=' + BUILD, 'REPO=' + REPO] + bins, log)
    with open(os.path.join(BUILD, 'build.log'), 'a') as f:
        f.write('\n'.join(log))
    return time.time() - t0


def binpath(flavour, name):
    return os.path.join(BUILD, 'bin-' + flavour, name)


if __name__ == '__main__':
    # setup: prebuild everything named on the command line as flavour:bin,bin ...
    want = {}
    for a in sys.argv[1:]:
        fl, _, bins = a.partition(':')
        want[fl] = [b for b in bins.split(',') if b]
    try:
        print('built in %.1fs' % build(want))
    except BuildError as e:
        print(e, file=sys.stderr)
        sys.exit(2)
