"""Prebuild every (flavour, binary) any check needs, so the first quick run is incremental."""
import sys
from . import props, vbuild
want = {}
for pid, spec in props.SPECS.items():
    for tier in ('quick', 'thorough'):
        for j in spec['jobs'](tier, 1):
            for fl, b in ((j.flavour, j.binary), (j.replay_flavour, j.replay_bin)):
                want.setdefault(fl, [])
                if b not in want[fl]:
                    want[fl].append(b)
            if j.fallback_binary and j.fallback_binary not in want[j.flavour]:
                want[j.flavour].append(j.fallback_binary)
try:
    t = vbuild.build(want)
except vbuild.BuildError as e:
    print(e); sys.exit(2)
print('setup: built %s in %.1fs' % ({k: v for k, v in want.items()}, t))
