"""Prebuild every (flavour, binary) any check needs, so the first quick run is incremental."""
import sys
from . import props, vbuild
want = {}
for pid, spec in props.SPECS.items():
    for tier in ('quick', 'thorough'):
        for j in spec['jobs'](tier, 1):
            want.setdefault(j.flavour, [])
            for b in {j.binary, j.replay_bin}:
                if b not in want[j.flavour]:
                    want[j.flavour].append(b)
try:
    t = vbuild.build(want)
except vbuild.BuildError as e:
    print(e); sys.exit(2)
print('setup: built %s in %.1fs' % ({k: v for k, v in want.items()}, t))
