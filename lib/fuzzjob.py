"""libFuzzer jobs: command line, seed corpus, and collection of statistics / artifacts."""
import glob, hashlib, json, os, re, shutil

from . import vbuild

VERIF = vbuild.VERIF


def command(job, work, tag, shard, seed):
    corpus = os.path.join(work, 'corpus-' + tag)
    os.makedirs(corpus, exist_ok=True)
    src = os.path.join(VERIF, 'corpus', job.corpus) if job.corpus else None
    if src and os.path.isdir(src) and shard % 2 == 0:      # odd shards start from an empty corpus
        for f in os.listdir(src):
            shutil.copy(os.path.join(src, f), corpus)
    return [vbuild.binpath(job.flavour, job.binary), '-seed=%d' % (seed * 100 + shard + 1), '-max_total_time=%d' % job.fuzz_time,
            '-max_len=%d' % job.max_len, '-print_final_stats=1', '-timeout=25', '-rss_limit_mb=4096', '-verbosity=0',
            '-artifact_prefix=%s/art-%s-' % (work, tag), corpus]


def collect(p, work, prop, agg, failures, write_case):
    j = p['job']
    tag = p['tag']
    log = open(os.path.join(work, 'log-%s.txt' % tag), errors='replace').read()
    sp = os.path.join(work, 'fzstats-%s.json' % tag)
    st = None
    if os.path.exists(sp):
        try:
            st = json.load(open(sp))
        except ValueError:
            st = None
    m = re.search(r'stat::number_of_executed_units:\s*(\d+)', log)
    execs = int(m.group(1)) if m else (st['evaluations'] if st else 0)
    c = agg['campaigns'].setdefault('FUZZ-' + j.binary, {'evaluations': 0, 'exhaustive': False, 'shards': 0})
    c['evaluations'] += execs; c['shards'] += 1
    agg['evaluations'] += execs
    if st:
        agg['skipped'] += st.get('skipped', 0)
        for s in st.get('samples', []):
            if sum(1 for x in agg['samples'] if x.startswith('FUZZ')) < 4:
                agg['samples'].append(s)
    agg['notes']['FUZZ-' + j.binary] = ('libFuzzer target %s (oracle of the property inside the target), %d s per instance, max_len %d, even instances seeded from corpus/%s, odd ones '
                                       'from an empty corpus; only crash-/leak- artifacts and oracle failures count, slow-unit/oom are load noise' % (j.binary, j.fuzz_time, j.max_len, j.corpus))
    hf = os.path.join(work, 'hash-%s.bin' % tag)
    oracle_cases = re.findall(r'ORACLE-FAIL \S+ case=(\S+)', log)
    for path in oracle_cases:
        if os.path.exists(path):
            failures.append((path, 'oracle(fuzz)', j))
    kinds = ['crash-', 'leak-'] + (['timeout-'] if prop == 'C01' else [])
    for art in glob.glob(os.path.join(work, 'art-%s-*' % tag)):
        base = os.path.basename(art)[len('art-%s-' % tag):]
        if not any(base.startswith(k) for k in kinds):
            agg['notes']['fuzz-noise-' + base[:20]] = 'artifact %s ignored (load noise class)' % base.split('-')[0]
            continue
        if oracle_cases and base.startswith('crash-'):
            continue      # the trap after an oracle failure: already recorded as a case
        data = open(art, 'rb').read()
        h = hashlib.sha1(data).hexdigest()[:16]
        from . import runner
        path = os.path.join(runner.REPLAYS, '%s-fuzz-%s.case' % (prop, h))
        first = ''
        for line in log.splitlines():
            if 'ERROR:' in line or 'runtime error' in line or 'Assertion' in line:
                first = line.strip(); break
        write_case(path, prop, j.replay_bin, {'campaign': 'FUZZ', 'aux': [0, 0, 0, 0], 'data': data}, 'libFuzzer artifact %s: %s' % (base.split('-')[0], first))
        failures.append((path, 'crash(fuzz)', j))
    return hf if os.path.exists(hf) else None
