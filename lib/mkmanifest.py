"""Regenerate MANIFEST.json from lib/props.py (python3 -m lib.mkmanifest)."""
import json, os
from . import props

VERIF = os.path.dirname(os.path.dirname(os.path.abspath(__file__)))
ids = [json.loads(l)['id'] for l in open(os.path.join(VERIF, 'properties.jsonl'))]
checks, na = [], []
for i in ids:
    s = props.SPECS.get(i)
    if not s:
        na.append({'property_id': i, 'reason': props.NOT_YET.get(i, 'check not built yet in this round; design in DESIGN.md section 4')})
        continue
    checks.append({
        'property_id': i,
        'quick_cmd': './check %s --tier quick' % i,
        'thorough_cmd': './check %s --tier thorough' % i,
        'evidence_file': 'evidence/%s.json' % i,
        'replay_cmd_template': './check %s --replay {path}' % i,
        'engine': s.get('engine', 'drivers'),
        'level_claimed': {'category': s['level'], 'text': s['level_text'], 'design_ref': 'DESIGN.md section 4, ' + i},
        'level_note': s['level_note'],
        'technique': s['technique'],
    })
m = {
    'version': 1,
    'setup_cmd': './setup.sh',
    'hooks': {
        'guard': 'PJK_LIBCBOR_VERIF',
        'enable': 'no source hooks are needed: every observation point is reachable through the public API, cbor_set_allocs, sanitizers and memory protection. The checks still pass -DPJK_LIBCBOR_VERIF to every library build (lib/vbuild.py) so a future hook would be picked up.',
        'baseline_off_cmd': 'cmake --build /repo/_build && ctest --test-dir /repo/_build -j8 --timeout 900',
        'source_commits': [],
        'add_only': True,
    },
    'engines': [
        {'name': 'drivers', 'path': 'src/drv', 'serves_properties': [c['property_id'] for c in checks],
         'kind_free_text': 'C++ drivers linked against a sanitizer build of libcbor made from /repo by its own CMake; deterministic enumerators, scalar sweeps, rapidcheck generators and libFuzzer targets all feed one oracle entry point per property (src/common/harness.hpp); python runner (check, lib/runner.py) shards over 16 processes, captures the in-flight case of a crashed shard from an mmap journal and confirms every failure by replay'},
    ],
    'checks': checks,
    'not_applicable': na,
    'notes': 'Property-based testing and fuzzing only. Genuine defects found are repaired by fix: commits in /repo and listed in known-findings.txt as fixed:. See DESIGN.md.',
}
json.dump(m, open(os.path.join(VERIF, 'MANIFEST.json'), 'w'), indent=1)
print('claimed:', [c['property_id'] for c in checks]); print('not yet:', [n['property_id'] for n in na])
