# Harness build.  The library itself is built by lib/vbuild.py through the repository's own
# CMake; this Makefile compiles the drivers against one library flavour.
#   make FL=<flavour> SAN=<asan|asan-strict|tsan|plain-O0|plain-O2|fuzz> BUILD=<dir> REPO=<dir> <targets>
REPO  ?= /repo
BUILD ?= build
FL    ?= asan
SAN   ?= asan
CXX   := clang++
LIBDIR := $(BUILD)/lib-$(FL)
OBJ    := $(BUILD)/obj-$(FL)
BIN    := $(BUILD)/bin-$(FL)

BASE := -std=gnu++17 -g -fno-omit-frame-pointer -Wall -Wno-unused-function -Wno-c99-designator -Isrc \
        -I$(REPO)/src -I$(LIBDIR)/src -I$(LIBDIR) -DPJK_LIBCBOR_VERIF
FLAGS_asan        := -O1 -fsanitize=address,undefined -fno-sanitize-recover=undefined
FLAGS_asan-strict := -O1 -fsanitize=address,undefined -fno-sanitize-recover=undefined
FLAGS_fuzz        := -O1 -fsanitize=address,undefined -fno-sanitize-recover=undefined -fsanitize=fuzzer-no-link
FLAGS_tsan        := -O1 -fsanitize=thread
FLAGS_plain-O0    := -O0
FLAGS_plain-O2    := -O2
RC_asan := 1
RC_asan-strict := 1
CXXFLAGS := $(BASE) $(FLAGS_$(SAN)) $(if $(RC_$(SAN)),-DVH_WITH_RC)
RCOBJ := $(if $(RC_$(SAN)),$(BUILD)/rc-$(SAN)/rc_cases.o)
RCLIB := $(if $(RC_$(SAN)),-lrapidcheck)
LDFLAGS_asan        := -fsanitize=address,undefined
LDFLAGS_asan-strict := -fsanitize=address,undefined
LDFLAGS_fuzz        := -fsanitize=address,undefined,fuzzer
LDFLAGS_tsan        := -fsanitize=thread
LDFLAGS_plain-O0    :=
LDFLAGS_plain-O2    :=
LDFLAGS := $(LDFLAGS_$(SAN)) -lpthread -ldl

LIB := $(LIBDIR)/src/libcbor.a

.SECONDARY:
$(OBJ)/%.o: src/drv/%.cpp | $(OBJ)
	$(CXX) $(CXXFLAGS) -MMD -MP -c $< -o $@
$(OBJ)/%.o: src/fuzz/%.cpp | $(OBJ)
	$(CXX) $(CXXFLAGS) -MMD -MP -c $< -o $@
$(OBJ)/valloc.o: src/alloc/valloc.cpp | $(OBJ)
	$(CXX) $(CXXFLAGS) -MMD -MP -c $< -o $@
# rapidcheck generator TUs include no libcbor header; they are compiled once per sanitizer kind
$(BUILD)/rc-$(SAN)/%.o: src/gen/%.cpp | $(BUILD)/rc-$(SAN)
	$(CXX) -std=gnu++17 -g -fno-omit-frame-pointer -Isrc $(FLAGS_$(SAN)) -MMD -MP -c $< -o $@

$(OBJ)/narrow%.o: src/drv/narrow%.cpp | $(OBJ)
	$(CXX) $(CXXFLAGS) -Wno-keyword-macro -fwrapv -fno-sanitize=all -w -DMEMUTILS_C='"$(REPO)/src/cbor/internal/memory_utils.c"' -MMD -MP -c $< -o $@
$(OBJ)/drv_arithp.o: src/drv/drv_arith.cpp | $(OBJ)
	$(CXX) $(CXXFLAGS) -DNO_INTERNALS -MMD -MP -c $< -o $@
$(BIN)/drv_arith: $(OBJ)/drv_arith.o $(OBJ)/narrow8.o $(OBJ)/narrow16.o $(OBJ)/valloc.o $(RCOBJ) $(LIB) | $(BIN)
	$(CXX) $< $(OBJ)/narrow8.o $(OBJ)/narrow16.o $(OBJ)/valloc.o $(RCOBJ) $(LIB) $(LDFLAGS) $(RCLIB) -o $@
$(BIN)/drv_%: $(OBJ)/drv_%.o $(OBJ)/valloc.o $(RCOBJ) $(LIB) | $(BIN)
	$(CXX) $< $(OBJ)/valloc.o $(RCOBJ) $(LIB) $(LDFLAGS) $(RCLIB) -o $@
$(BIN)/fz_%: $(OBJ)/fz_%.o $(OBJ)/valloc.o $(LIB) | $(BIN)
	$(CXX) $< $(OBJ)/valloc.o $(LIB) $(LDFLAGS) -o $@

$(OBJ) $(BIN) $(BUILD)/rc-$(SAN):
	mkdir -p $@

-include $(wildcard $(OBJ)/*.d) $(wildcard $(BUILD)/rc-$(SAN)/*.d)
