#!/bin/sh
# MANIFEST.setup_cmd: build every library flavour and harness binary from files on disk (offline).
set -e
cd "$(dirname "$0")"
mkdir -p evidence replays
python3 -m lib.presetup
